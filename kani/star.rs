// E2 twins for sta-rs glue functions under "symbolic STROBE" (see kstrobe.rs).  Each twin compares
// the real function with an independent re-statement of its contract term, for small symbolic
// inputs.  Injected into a scratch copy of /repo under cfg(kani) only.
use super::*;
include!("/verif/kani/kstrobe.rs");

fn ref_digest(label: &[u8], key: &[u8], ads: &[&[u8]]) -> [u8; 32] {
  let mut t = Strobe::new(label, SecParam::B128);
  t.key(key, false);
  let mut i = 0;
  while i < ads.len() {
    t.ad(ads[i], false);
    i += 1;
  }
  t.meta_ad(&32u32.to_le_bytes(), false);
  let mut out = [0u8; 32];
  t.prf(&mut out, false);
  core::mem::forget(t);
  out
}

macro_rules! kstrobe_twin {
  ($name:ident, $unwind:expr, $body:block) => {
    #[kani::proof]
    #[kani::unwind($unwind)]
    #[kani::stub(strobe_rs::Strobe::new, ks_new)]
    #[kani::stub(strobe_rs::Strobe::ad, ks_ad)]
    #[kani::stub(strobe_rs::Strobe::meta_ad, ks_meta_ad)]
    #[kani::stub(strobe_rs::Strobe::key, ks_key)]
    #[kani::stub(strobe_rs::Strobe::prf, ks_prf)]
    #[kani::stub(strobe_rs::Strobe::send_enc, ks_send_enc)]
    #[kani::stub(strobe_rs::Strobe::recv_enc, ks_recv_enc)]
    #[kani::stub(strobe_rs::Strobe::send_mac, ks_send_mac)]
    #[kani::stub(<strobe_rs::Strobe as zeroize::Zeroize>::zeroize, ks_noop_zeroize)]
    #[kani::stub(zeroize::optimization_barrier, ks_noop_barrier)]
    #[kani::stub(<strobe_rs::Strobe as core::ops::Drop>::drop, ks_noop_zeroize)]
    fn $name() $body
  };
}

// Ciphertext::new / decrypt: one key op on the label state, then one encryption of the WHOLE payload
// (concrete payload lengths: symbolic slice lengths are what makes CBMC slow)
fn check_ciphertext<const N: usize>() {
  let key: [u8; 4] = kani::any();
  let data: [u8; N] = kani::any();
  let c = Ciphertext::new(&key, &data, "star_encrypt");
  let mut s = Strobe::new(b"star_encrypt", SecParam::B128);
  s.key(&key, false);
  let mut x = data;
  s.send_enc(&mut x, false);
  core::mem::forget(s);
  let cb = c.to_bytes();
  assert!(cb.len() == N);
  let mut i = 0;
  while i < N {
    assert!(cb[i] == x[i]);
    i += 1;
  }
  // and decrypt inverts it
  let m = c.decrypt(&key, "star_encrypt");
  assert!(m.len() == N);
  let mut i = 0;
  while i < N {
    assert!(m[i] == data[i]);
    i += 1;
  }
}
kstrobe_twin!(k_ciphertext_new, 72, {
  check_ciphertext::<0>();
  check_ciphertext::<1>();
  check_ciphertext::<70>();
});
// payloads longer than one STROBE block (rate 166 bytes), not a multiple of it: a block-wise
// implementation must still cover the trailing partial block
kstrobe_twin!(k_ciphertext_long, 172, {
  check_ciphertext::<170>();
});

// strobe_digest / derive_ske_key / sample_local_randomness / derive_random_values: labelled key op,
// one separately framed ad op per element, then one 32-byte RNG draw (concrete lengths, symbolic bytes)
fn check_derivations<const ML: usize, const EL: usize>() {
  let m: [u8; ML] = kani::any();
  let e: [u8; EL] = kani::any();
  let t: u32 = kani::any();
  let mg = core::mem::ManuallyDrop::new(MessageGenerator::new(SingleMeasurement::new(&m), t, &e));
  let mut rnd = [0u8; 32];
  mg.sample_local_randomness(&mut rnd);
  let want = ref_digest(b"star_sample_local", &m, &[&e, &t.to_le_bytes()]);
  let mut i = 0;
  while i < 32 { assert!(rnd[i] == want[i]); i += 1; }
  // the three labelled outputs
  let r = core::mem::ManuallyDrop::new(mg.derive_random_values(&rnd));
  assert!(r.len() == 3);
  let mut k = 0;
  while k < 3 {
    let w = ref_digest(b"star_derive_randoms", &rnd, &[&[k as u8]]);
    let mut i = 0;
    while i < 32 { assert!(r[k][i] == w[i]); i += 1; }
    k += 1;
  }
  // the encryption key: first 16 bytes of the epoch-bound digest of r0
  let key = mg.derive_key(&r[0]);
  let w = ref_digest(b"star_derive_ske_key", &r[0], &[&e]);
  let mut i = 0;
  while i < 16 { assert!(key[i] == w[i]); i += 1; }
  let mut k2 = [0u8; 16];
  derive_ske_key(&r[0], &e, &mut k2);
  let mut i = 0;
  while i < 16 { assert!(k2[i] == w[i]); i += 1; }
}
kstrobe_twin!(k_star_derivations, 34, {
  check_derivations::<2, 1>();
});
kstrobe_twin!(k_star_derivations_empty, 34, {
  check_derivations::<0, 0>();
});

// Message::generate: tag = r[2]; ciphertext = Enc(key = derive_key(r[0]), frame(measurement) ++
// frame(aux) if aux is Some (ALSO when it is empty), nothing if None).  The share component is not
// looked at here (MessageGenerator::share is stubbed by an opaque value; Commune::share is proved
// by Verus), the derivations are covered by k_star_derivations.
fn stub_mg_share(_this: &MessageGenerator, _r1: &[u8], _r2: &[u8]) -> Result<Share, Box<dyn Error>> {
  // a valid but meaningless share (threshold 1, x = 1, no y, empty C and D, zero MAC), decoded from
  // concrete bytes; an uninitialised value is not usable because Result's niche lives inside Share
  let mut b = [0u8; 104];
  b[0] = 1;      // threshold
  b[4] = 24;     // |S|
  b[8] = 1;      // x = 1
  Ok(Share::from_bytes(&b).unwrap())
}
// the derivations are covered by k_star_derivations: fixed values here keep this twin about generate's
// own logic (which output feeds what, payload framing, one encryption, the tag)
fn stub_derive_random_values(_this: &MessageGenerator, _randomness: &[u8]) -> Vec<[u8; 32]> {
  vec![[1u8; 32], [2u8; 32], [3u8; 32]]
}
fn stub_derive_key(_this: &MessageGenerator, r1: &[u8]) -> [u8; 16] {
  // depends on its argument so that feeding the wrong r[i] is visible
  let mut k = [9u8; 16];
  k[0] = r1[0];
  k
}
fn check_generate<const ML: usize, const AL: usize>(with_aux: bool) {
  let m: [u8; ML] = kani::any();
  let a: [u8; AL] = kani::any();
  let rnd: [u8; 32] = kani::any();
  let mg = core::mem::ManuallyDrop::new(MessageGenerator::new(SingleMeasurement::new(&m), 3, b"e"));
  let aux = if with_aux { Some(AssociatedData::new(&a)) } else { None };
  let msg = core::mem::ManuallyDrop::new(Message::generate(&mg, &rnd, aux).unwrap());
  let r = [[1u8; 32], [2u8; 32], [3u8; 32]];
  let mut key = [9u8; 16];
  key[0] = 1;
  // independent payload: 4-byte LE length prefix + bytes, per chunk
  let mut pl = [0u8; 16];
  let mut n = 0;
  pl[n..n + 4].copy_from_slice(&(ML as u32).to_le_bytes());
  n += 4;
  pl[n..n + ML].copy_from_slice(&m);
  n += ML;
  if with_aux {
    pl[n..n + 4].copy_from_slice(&(AL as u32).to_le_bytes());
    n += 4;
    pl[n..n + AL].copy_from_slice(&a);
    n += AL;
  }
  let mut s = Strobe::new(b"star_encrypt", SecParam::B128);
  s.key(&key, false);
  s.send_enc(&mut pl[..n], false);
  core::mem::forget(s);
  let cb = msg.ciphertext.to_bytes();
  assert!(cb.len() == n);
  let mut i = 0;
  while i < n { assert!(cb[i] == pl[i]); i += 1; }
  assert!(msg.tag.len() == 32);
  let mut i = 0;
  while i < 32 { assert!(msg.tag[i] == r[2][i]); i += 1; }
}
macro_rules! generate_twin {
  ($name:ident, $ml:expr, $al:expr, $aux:expr) => {
    #[kani::proof]
    #[kani::unwind(34)]
    #[kani::stub(strobe_rs::Strobe::new, ks_new)]
    #[kani::stub(strobe_rs::Strobe::ad, ks_ad)]
    #[kani::stub(strobe_rs::Strobe::meta_ad, ks_meta_ad)]
    #[kani::stub(strobe_rs::Strobe::key, ks_key)]
    #[kani::stub(strobe_rs::Strobe::prf, ks_prf)]
    #[kani::stub(strobe_rs::Strobe::send_enc, ks_send_enc)]
    #[kani::stub(strobe_rs::Strobe::recv_enc, ks_recv_enc)]
    #[kani::stub(<strobe_rs::Strobe as zeroize::Zeroize>::zeroize, ks_noop_zeroize)]
    #[kani::stub(<strobe_rs::Strobe as core::ops::Drop>::drop, ks_noop_zeroize)]
    #[kani::stub(zeroize::optimization_barrier, ks_noop_barrier)]
    #[kani::stub(MessageGenerator::share, stub_mg_share)]
    #[kani::stub(MessageGenerator::derive_random_values, stub_derive_random_values)]
    #[kani::stub(MessageGenerator::derive_key, stub_derive_key)]
    fn $name() { check_generate::<$ml, $al>($aux); }
  };
}
// NOT REGISTERED: these three do not finish (CBMC fails after ~18 min; decoding the dummy share and the
// Vec traffic of generate are too heavy).  Kept for reference; Message::generate has no Kani twin.
generate_twin!(k_generate_no_aux, 2, 0, false);
generate_twin!(k_generate_empty_aux, 2, 0, true);
generate_twin!(k_generate_aux, 1, 2, true);

/// must FAIL (vacuity canary of this harness family: a different label must change the output)
kstrobe_twin!(k_canary_must_fail_star, 34, {
  let a = ref_digest(b"label-a", &[1, 2], &[&[3]]);
  let b = ref_digest(b"label-b", &[1, 2], &[&[3]]);
  assert!(a[0] == b[0] && a[1] == b[1] && a[2] == b[2] && a[3] == b[3]);
});

