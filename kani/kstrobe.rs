// "Symbolic STROBE" for Kani twins (included with include! into harness modules).
//
// Real STROBE (Keccak-f on symbolic data) is far outside CBMC's reach, and it is not what the twins
// are about: they check the GLUE - which operations, in which order, with which framing, on which
// data.  Every Strobe operation is replaced by a cheap deterministic mixing function of
// (previous accumulator, operation code, `more` flag, data bytes): a change of operation order,
// framing, labels or data changes the accumulator and therefore every later output.  The
// accumulator lives in the first 8 bytes of the Strobe object itself, so it is cloned/moved with it.
// ASSUMED (T-strobe): the real operations are functions of the same arguments.
use strobe_rs::{AuthError as KAuthError, SecParam as KSecParam, Strobe as KStrobe};

fn ks_acc(s: &KStrobe) -> u64 { unsafe { *(s as *const KStrobe as *const u64) } }
fn ks_set(s: &mut KStrobe, v: u64) { unsafe { *(s as *mut KStrobe as *mut u64) = v; } }
fn ks_mix1(acc: u64, b: u64) -> u64 { (acc.rotate_left(7) ^ b).wrapping_add(0x9E37_79B9_7F4A_7C15) }
fn ks_absorb(acc: u64, op: u8, more: bool, data: &[u8]) -> u64 {
  let mut a = if more { ks_mix1(acc, 0xFFFF) } else { ks_mix1(ks_mix1(acc, op as u64), 0x1_0000) };
  let mut i = 0;
  while i < data.len() {
    a = ks_mix1(a, data[i] as u64 + ((i as u64) << 8));
    i += 1;
  }
  ks_mix1(a, data.len() as u64)
}
fn ks_out(acc: u64, i: usize) -> u8 {
  let v = ks_mix1(acc, 0xABCD + i as u64);
  (v ^ (v >> 17) ^ (v >> 41)) as u8
}

pub fn ks_new(proto: &[u8], _sec: KSecParam) -> KStrobe {
  // the object is never read by real STROBE code: every operation applied to it is stubbed
  let mut s: KStrobe = unsafe { core::mem::MaybeUninit::<KStrobe>::uninit().assume_init() };
  ks_set(&mut s, ks_absorb(0x5354_524F_4245, 0, false, proto));
  s
}
pub fn ks_ad(s: &mut KStrobe, data: &[u8], more: bool) { let a = ks_absorb(ks_acc(s), 1, more, data); ks_set(s, a); }
pub fn ks_meta_ad(s: &mut KStrobe, data: &[u8], more: bool) { let a = ks_absorb(ks_acc(s), 2, more, data); ks_set(s, a); }
pub fn ks_key(s: &mut KStrobe, data: &[u8], more: bool) { let a = ks_absorb(ks_acc(s), 3, more, data); ks_set(s, a); }
pub fn ks_prf(s: &mut KStrobe, data: &mut [u8], more: bool) {
  let a0 = ks_mix1(ks_acc(s), if more { 0x400 } else { 4 });
  let mut i = 0;
  while i < data.len() {
    data[i] = ks_out(a0, i);
    i += 1;
  }
  ks_set(s, ks_mix1(a0, data.len() as u64));
}
pub fn ks_send_mac(s: &mut KStrobe, data: &mut [u8], more: bool) {
  let a0 = ks_mix1(ks_acc(s), if more { 0x500 } else { 5 });
  let mut i = 0;
  while i < data.len() {
    data[i] = ks_out(a0, i);
    i += 1;
  }
  ks_set(s, ks_mix1(a0, data.len() as u64));
}
pub fn ks_recv_mac<const N: usize>(s: &mut KStrobe, mac: &[u8; N]) -> Result<(), KAuthError> {
  let a0 = ks_mix1(ks_acc(s), 5);
  let mut ok = true;
  let mut i = 0;
  while i < N {
    if mac[i] != ks_out(a0, i) { ok = false; }
    i += 1;
  }
  ks_set(s, ks_mix1(a0, N as u64));
  if ok { Ok(()) } else { Err(KAuthError) }
}
/// duplex encryption: ciphertext = plaintext xor keystream(state); the state absorbs the ciphertext
pub fn ks_send_enc(s: &mut KStrobe, data: &mut [u8], more: bool) {
  let a0 = ks_mix1(ks_acc(s), if more { 0x600 } else { 6 });
  let mut i = 0;
  while i < data.len() {
    data[i] ^= ks_out(a0, i);
    i += 1;
  }
  let a = ks_absorb(a0, 7, false, data);
  ks_set(s, a);
}
pub fn ks_recv_enc(s: &mut KStrobe, data: &mut [u8], more: bool) {
  let a0 = ks_mix1(ks_acc(s), if more { 0x600 } else { 6 });
  let a = ks_absorb(a0, 7, false, data);
  let mut i = 0;
  while i < data.len() {
    data[i] ^= ks_out(a0, i);
    i += 1;
  }
  ks_set(s, a);
}
pub fn ks_noop_zeroize(_s: &mut KStrobe) {}
pub fn ks_noop_barrier<T: ?Sized>(_v: &T) {}
/// wiping of temporaries is irrelevant to the glue and its byte loops only cost unwinding depth
pub fn ks_noop_iter_zeroize<Z: zeroize::Zeroize>(_s: &mut core::slice::IterMut<'_, Z>) {}
