// E2 harnesses for the adss crate (child module of the crate root).  Injected into a scratch copy
// of /repo under cfg(kani) only.
use super::*;

fn le_bytes4(x: u32) -> [u8; 4] {
  // textbook definition used by the Verus vocabulary (le_bytes(x, 4))
  [(x % 256) as u8, ((x / 256) % 256) as u8, ((x / 65536) % 256) as u8, ((x / 16777216) % 256) as u8]
}

/// N3 wrappers: the contract Verus ASSUMES for u32::to_le_bytes / u32::from_le_bytes, for all 2^32 values
#[kani::proof]
fn k_u32_le_bytes_contract() {
  let x: u32 = kani::any();
  let b = x.to_le_bytes();
  assert!(b == le_bytes4(x));
  let v = b[0] as u64 + 256 * (b[1] as u64 + 256 * (b[2] as u64 + 256 * b[3] as u64));
  assert!(u32::from_le_bytes(b) as u64 == v);
  let c: [u8; 4] = kani::any();
  let w = c[0] as u64 + 256 * (c[1] as u64 + 256 * (c[2] as u64 + 256 * c[3] as u64));
  assert!(u32::from_le_bytes(c) as u64 == w);
}

/// store_u32 / load_u32 twins (complete: all u32, all 4-byte strings)
#[kani::proof]
#[kani::unwind(6)]
fn k_load_store_u32() {
  let x: u32 = kani::any();
  let mut out: Vec<u8> = Vec::new();
  store_u32(x, &mut out);
  assert!(out.len() == 4);
  assert!(load_u32(&out) == Some(x));
  let b: [u8; 4] = kani::any();
  assert!(load_u32(&b) == Some(u32::from_le_bytes(b)));
  let n: usize = kani::any();
  kani::assume(n <= 5 && n != 4);
  let c: [u8; 5] = kani::any();
  assert!(load_u32(&c[..n]).is_none());
}

/// load_bytes never panics and agrees with the layout, for every byte string of length <= 12 and
/// every length header (bounded twin of the unbounded Verus proof; yields concrete counterexamples)
#[kani::proof]
#[kani::unwind(14)]
fn k_load_bytes_bounded() {
  let buf: [u8; 12] = kani::any();
  let n: usize = kani::any();
  kani::assume(n <= 12);
  let s = &buf[..n];
  let r = load_bytes(s);
  if n < 4 {
    assert!(r.is_none());
  } else {
    let len = u32::from_le_bytes([s[0], s[1], s[2], s[3]]) as u64;
    if (n as u64) - 4 < len {
      assert!(r.is_none());
    } else {
      let c = r.unwrap();
      assert!(c.len() as u64 == len);
      assert!(c.as_ptr() == s[4..].as_ptr());
    }
  }
}

/// AccessStructure encoding (complete)
#[kani::proof]
fn k_access_structure_bytes() {
  let t: u32 = kani::any();
  // ZeroizeOnDrop uses an inline-asm barrier Kani cannot model: never drop the values
  let a = core::mem::ManuallyDrop::new(AccessStructure { threshold: t });
  let b = a.to_bytes();
  assert!(b == le_bytes4(t));
  match AccessStructure::from_bytes(&b) {
    Some(x) => {
      assert!(x.threshold == t);
      core::mem::forget(x);
    }
    None => assert!(false),
  }
}

/// must FAIL: vacuity canary
#[kani::proof]
fn k_canary_must_fail_adss() {
  let x: u32 = kani::any();
  assert!(x.to_le_bytes()[0] != 9);
}

// ---------------------------------------------------------------------------------------------
// D4 cut relation of `recover` (bounded obligation on the REAL function): Verus proves the tail
// `recover__tail(s, shares)` and ASSUMES that the three-statement iterator prologue hands it
// (clone of the FIRST element, the S components of ALL elements in order) and returns Err on an
// empty collection.  Here the prologue runs for real; what it passes on is observed through stubs.

fn noop_barrier<T: ?Sized>(_v: &T) {}

static mut REC_CALLS: usize = 0;
static mut REC_T: u32 = 0;
static mut REC_N: usize = 0;
static mut REC_TAG: [usize; 4] = [0; 4];
static mut REC_RESULT_OK: bool = false;

/// stands in for star_sharks::Sharks::recover: records the threshold and, per share in iteration
/// order, its tag (= number of y coordinates)
fn stub_sharks_recover<'a, T>(this: &star_sharks::Sharks, shares: T) -> Result<Vec<u8>, &'static str>
where
  T: IntoIterator<Item = &'a star_sharks::Share>,
  T::IntoIter: Iterator<Item = &'a star_sharks::Share>,
{
  unsafe {
    REC_CALLS += 1;
    REC_T = this.0;
    REC_N = 0;
    for s in shares.into_iter() {
      if REC_N < 4 { REC_TAG[REC_N] = s.y.len(); }
      REC_N += 1;
    }
    if REC_RESULT_OK { Ok(vec![7u8; 24]) } else { Err("stub") }
  }
}

static mut VER_CALLS: usize = 0;
static mut VER_T: u32 = 0;
static mut VER_MLEN: usize = 0;
static mut VER_RLEN: usize = 0;
static mut VER_J0: u8 = 0;
#[allow(non_snake_case)]
fn stub_verify(this: &Commune, J: &[u8; MAC_LENGTH]) -> Result<(), Box<dyn Error>> {
  unsafe {
    VER_CALLS += 1;
    VER_T = this.A.threshold;
    VER_MLEN = this.M.len();
    VER_RLEN = this.R.len();
    VER_J0 = J[0];
  }
  Err("stub".into())
}

/// share number `tag` (1..=3): tag y-coordinates, |C| = tag, |D| = tag + 3, J[0] = tag
fn tagged_share(tag: usize, threshold: u32) -> Share {
  // distinct evaluation points in DESCENDING order of tag (x = 4 - tag), so that any reordering by x
  // is visible; y = `tag` zero elements
  let mut y = Vec::with_capacity(3);
  let mut i = 0;
  while i < tag {
    y.push(star_sharks::Fp::default());
    i += 1;
  }
  let s = star_sharks::Share { x: star_sharks::Fp::from((4 - tag) as u64), y };
  let mut j = [0u8; MAC_LENGTH];
  j[0] = tag as u8;
  Share { A: AccessStructure { threshold }, S: s, C: vec![0xAAu8; tag], D: vec![0x55u8; tag + 3], J: j, T: () }
}

fn cut_harness<const N: usize>(result_ok: bool) { cut_harness_t::<N>(result_ok, None) }
/// `fixed_t = Some(t)`: every share carries the CONCRETE threshold t (keeps CBMC small when the changed prologue
/// uses the threshold to size something, e.g. `.take(threshold)`), the order of the shares stays symbolic
fn cut_harness_t<const N: usize>(result_ok: bool, fixed_t: Option<u32>) {
  // three concrete prototype shares; position i holds a clone of prototype tags[i] (symbolic choice)
  let p1 = tagged_share(1, 0);
  let p2 = tagged_share(2, 0);
  let p3 = tagged_share(3, 0);
  let mut tags = [0usize; N];
  let mut ths = [0u32; N];
  let mut shares: Vec<Share> = Vec::with_capacity(N);
  let mut i = 0;
  while i < N {
    let c: u8 = kani::any();
    let th: u32 = match fixed_t { Some(t) => t, None => kani::any() };
    let mut sh = if c == 0 { tags[i] = 1; p1.clone() } else if c == 1 { tags[i] = 2; p2.clone() } else { tags[i] = 3; p3.clone() };
    sh.A = AccessStructure { threshold: th };
    ths[i] = th;
    shares.push(sh);
    i += 1;
  }
  unsafe { REC_CALLS = 0; VER_CALLS = 0; REC_RESULT_OK = result_ok; }
  let r = recover(&shares);
  assert!(r.is_err());
  unsafe {
    if N == 0 {
      assert!(REC_CALLS == 0 && VER_CALLS == 0);
    } else {
      assert!(REC_CALLS == 1);
      assert!(REC_T == ths[0]);
      assert!(REC_N == N);
      let mut k = 0;
      while k < N {
        assert!(REC_TAG[k] == tags[k]);
        k += 1;
      }
      if result_ok {
        assert!(VER_CALLS == 1);
        assert!(VER_T == ths[0]);
        assert!(VER_MLEN == tags[0]);
        assert!(VER_RLEN == tags[0] + 3);
        assert!(VER_J0 == tags[0] as u8);
      }
    }
  }
  core::mem::forget(r);
  core::mem::forget(shares);
  core::mem::forget(p1);
  core::mem::forget(p2);
  core::mem::forget(p3);
}

/// prologue -> Sharks::recover: threshold of the FIRST share, S components of ALL shares in order;
/// empty collection is an error before anything is called (0..3 shares, symbolic order/thresholds)
#[kani::proof]
#[kani::unwind(6)]
#[kani::stub(star_sharks::Sharks::recover, stub_sharks_recover)]
#[kani::stub(zeroize::optimization_barrier, noop_barrier)]
fn k_recover_cut_shares() {
  cut_harness::<2>(false);
}
/// ALL shares are handed on, also those beyond the threshold (3 shares, threshold 2 on each)
#[kani::proof]
#[kani::unwind(6)]
#[kani::stub(star_sharks::Sharks::recover, stub_sharks_recover)]
#[kani::stub(zeroize::optimization_barrier, noop_barrier)]
fn k_recover_cut_surplus() {
  cut_harness_t::<3>(false, Some(2));
}
#[kani::proof]
#[kani::unwind(6)]
#[kani::stub(star_sharks::Sharks::recover, stub_sharks_recover)]
#[kani::stub(zeroize::optimization_barrier, noop_barrier)]
fn k_recover_cut_empty() {
  cut_harness::<0>(false);
}
#[kani::proof]
#[kani::unwind(6)]
#[kani::stub(star_sharks::Sharks::recover, stub_sharks_recover)]
#[kani::stub(zeroize::optimization_barrier, noop_barrier)]
fn k_recover_cut_shares_3() {
  cut_harness::<3>(false);
}

// STROBE is irrelevant to WHICH share's fields are used: no-op key / recv_enc operations keep
// symbolic Keccak out of the harness (recv_enc then leaves C and D unchanged, so lengths identify the share)
fn stub_strobe_new(_proto: &[u8], _sec: SecParam) -> Strobe {
  // never read: every operation applied to it in `recover` is stubbed
  unsafe { core::mem::MaybeUninit::<Strobe>::uninit().assume_init() }
}
fn stub_strobe_key(_s: &mut Strobe, _data: &[u8], _more: bool) {}
fn stub_strobe_recv_enc(_s: &mut Strobe, _data: &mut [u8], _more: bool) {}

/// prologue -> tail: ciphertext, encrypted coins, MAC and threshold used after interpolation are
/// those of the FIRST share (observed at Commune::verify)
#[kani::proof]
#[kani::unwind(6)]
#[kani::stub(star_sharks::Sharks::recover, stub_sharks_recover)]
#[kani::stub(Commune::verify, stub_verify)]
#[kani::stub(strobe_rs::Strobe::new, stub_strobe_new)]
#[kani::stub(strobe_rs::Strobe::key, stub_strobe_key)]
#[kani::stub(strobe_rs::Strobe::recv_enc, stub_strobe_recv_enc)]
#[kani::stub(zeroize::optimization_barrier, noop_barrier)]
fn k_recover_cut_first() {
  cut_harness::<2>(true);
}

/// N7 wrapper contract (ASSUMED by Verus): slice -> array conversion succeeds iff the lengths match
/// and then copies the contents; all byte strings of length 0..6 against N = 4
#[kani::proof]
#[kani::unwind(8)]
fn k_slice_to_array_contract() {
  let buf: [u8; 6] = kani::any();
  let n: usize = kani::any();
  kani::assume(n <= 6);
  let s = &buf[..n];
  let r: Result<[u8; 4], _> = s.try_into();
  assert!(r.is_ok() == (n == 4));
  if let Ok(a) = r {
    assert!(a[0] == s[0] && a[1] == s[1] && a[2] == s[2] && a[3] == s[3]);
  }
}
