// E2 harnesses for the adss crate (child module of the crate root).  Injected into a scratch copy
// of /repo under cfg(kani) only.
use super::*;

fn le_bytes4(x: u32) -> [u8; 4] {
  // textbook definition used by the Verus vocabulary (le_bytes(x, 4))
  [(x % 256) as u8, ((x / 256) % 256) as u8, ((x / 65536) % 256) as u8, ((x / 16777216) % 256) as u8]
}

/// N3 wrappers: the contract Verus ASSUMES for u32::to_le_bytes / u32::from_le_bytes, for all 2^32 values
#[kani::proof]
fn k_u32_le_bytes_contract() {
  let x: u32 = kani::any();
  let b = x.to_le_bytes();
  assert!(b == le_bytes4(x));
  let v = b[0] as u64 + 256 * (b[1] as u64 + 256 * (b[2] as u64 + 256 * b[3] as u64));
  assert!(u32::from_le_bytes(b) as u64 == v);
  let c: [u8; 4] = kani::any();
  let w = c[0] as u64 + 256 * (c[1] as u64 + 256 * (c[2] as u64 + 256 * c[3] as u64));
  assert!(u32::from_le_bytes(c) as u64 == w);
}

/// store_u32 / load_u32 twins (complete: all u32, all 4-byte strings)
#[kani::proof]
#[kani::unwind(6)]
fn k_load_store_u32() {
  let x: u32 = kani::any();
  let mut out: Vec<u8> = Vec::new();
  store_u32(x, &mut out);
  assert!(out.len() == 4);
  assert!(load_u32(&out) == Some(x));
  let b: [u8; 4] = kani::any();
  assert!(load_u32(&b) == Some(u32::from_le_bytes(b)));
  let n: usize = kani::any();
  kani::assume(n <= 5 && n != 4);
  let c: [u8; 5] = kani::any();
  assert!(load_u32(&c[..n]).is_none());
}

/// load_bytes never panics and agrees with the layout, for every byte string of length <= 12 and
/// every length header (bounded twin of the unbounded Verus proof; yields concrete counterexamples)
#[kani::proof]
#[kani::unwind(14)]
fn k_load_bytes_bounded() {
  let buf: [u8; 12] = kani::any();
  let n: usize = kani::any();
  kani::assume(n <= 12);
  let s = &buf[..n];
  let r = load_bytes(s);
  if n < 4 {
    assert!(r.is_none());
  } else {
    let len = u32::from_le_bytes([s[0], s[1], s[2], s[3]]) as u64;
    if (n as u64) - 4 < len {
      assert!(r.is_none());
    } else {
      let c = r.unwrap();
      assert!(c.len() as u64 == len);
      assert!(c.as_ptr() == s[4..].as_ptr());
    }
  }
}

/// AccessStructure encoding (complete)
#[kani::proof]
fn k_access_structure_bytes() {
  let t: u32 = kani::any();
  // ZeroizeOnDrop uses an inline-asm barrier Kani cannot model: never drop the values
  let a = core::mem::ManuallyDrop::new(AccessStructure { threshold: t });
  let b = a.to_bytes();
  assert!(b == le_bytes4(t));
  match AccessStructure::from_bytes(&b) {
    Some(x) => {
      assert!(x.threshold == t);
      core::mem::forget(x);
    }
    None => assert!(false),
  }
}

/// must FAIL: vacuity canary
#[kani::proof]
fn k_canary_must_fail_adss() {
  let x: u32 = kani::any();
  assert!(x.to_le_bytes()[0] != 9);
}
