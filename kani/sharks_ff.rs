// E2 harnesses for star-sharks' field type (child module of share_ff: sees Fp.0).
// Injected into a scratch copy of /repo under cfg(kani) only.
use super::*;
use crate::ff::{Field, PrimeField};
use crate::ff::derive::subtle;

/// p = 2^128 + 12451 as little-endian 64-bit limbs
const P: [u64; 3] = [12451, 0, 1];

/// limb-wise equality (array `==` goes through memcmp, whose loop needs a large unwinding bound)
fn eq3(a: &[u64; 3], b: &[u64; 3]) -> bool { a[0] == b[0] && a[1] == b[1] && a[2] == b[2] }

fn lt(a: &[u64; 3], b: &[u64; 3]) -> bool {
  if a[2] != b[2] { return a[2] < b[2]; }
  if a[1] != b[1] { return a[1] < b[1]; }
  a[0] < b[0]
}

/// any canonical residue (the type invariant of Fp: limbs < p)
fn any_fp() -> Fp {
  let l: [u64; 3] = kani::any();
  kani::assume(lt(&l, &P));
  Fp(l)
}

/// independent reference: 3-limb addition with explicit carries in u128
fn add3(a: &[u64; 3], b: &[u64; 3]) -> [u64; 3] {
  let s0 = a[0] as u128 + b[0] as u128;
  let s1 = a[1] as u128 + b[1] as u128 + (s0 >> 64);
  let s2 = a[2] as u128 + b[2] as u128 + (s1 >> 64);
  [s0 as u64, s1 as u64, s2 as u64]
}
/// a - b for a >= b
fn sub3(a: &[u64; 3], b: &[u64; 3]) -> [u64; 3] {
  let d0 = (a[0] as u128).wrapping_sub(b[0] as u128);
  let br0 = (a[0] < b[0]) as u128;
  let d1 = (a[1] as u128).wrapping_sub(b[1] as u128).wrapping_sub(br0);
  let br1 = ((a[1] as u128) < b[1] as u128 + br0) as u128;
  let d2 = (a[2] as u128).wrapping_sub(b[2] as u128).wrapping_sub(br1);
  [d0 as u64, d1 as u64, d2 as u64]
}
fn ref_add(a: &[u64; 3], b: &[u64; 3]) -> [u64; 3] {
  let s = add3(a, b); // < 2p < 2^130, no overflow out of 192 bits
  if lt(&s, &P) { s } else { sub3(&s, &P) }
}
fn ref_sub(a: &[u64; 3], b: &[u64; 3]) -> [u64; 3] {
  if lt(a, b) { sub3(&add3(a, &P), b) } else { sub3(a, b) }
}

#[kani::proof]
fn k_fp_add() {
  let a = any_fp();
  let b = any_fp();
  let c = a + b;
  assert!(c.0 == ref_add(&a.0, &b.0));
  assert!(lt(&c.0, &P));
  let mut d = a;
  d += b;
  assert!(d.0 == c.0);
  let e = a + &b;
  assert!(e.0 == c.0);
  assert!(Fp::ZERO.0 == [0u64; 3]);
}

#[kani::proof]
fn k_fp_sub() {
  let a = any_fp();
  let b = any_fp();
  let c = a - b;
  assert!(c.0 == ref_sub(&a.0, &b.0));
  assert!(lt(&c.0, &P));
  let mut d = a;
  d -= b;
  assert!(d.0 == c.0);
}

#[kani::proof]
fn k_fp_neg() {
  let a = any_fp();
  let c = -a;
  let z = [0u64; 3];
  assert!(c.0 == ref_sub(&z, &a.0));
  assert!(lt(&c.0, &P));
}

#[kani::proof]
fn k_fp_double() {
  let a = any_fp();
  let c = a.double();
  assert!(c.0 == ref_add(&a.0, &a.0));
  assert!(lt(&c.0, &P));
}

/// decoding: accepted iff the 24-byte little-endian integer is below p (all 2^192 strings)
#[kani::proof]
fn k_fp_from_repr_range() {
  let b: [u8; 24] = kani::any();
  let mut l = [0u64; 3];
  let mut i = 0;
  while i < 3 {
    let mut w = [0u8; 8];
    w.copy_from_slice(&b[8 * i..8 * i + 8]);
    l[i] = u64::from_le_bytes(w);
    i += 1;
  }
  let r = Fp::from_repr(FpRepr(b));
  let some: bool = r.is_some().into();
  assert!(some == lt(&l, &P));
}

/// `Fp::reduce` (ASSUMED by the Verus unit `ff`): subtract the modulus exactly when the limbs are not below it -
/// every one of the 2^192 limb values
#[kani::proof]
#[kani::unwind(5)]
fn k_fp_reduce() {
  let l: [u64; 3] = kani::any();
  let mut x = Fp(l);
  x.reduce();
  let want = if lt(&l, &P) { l } else { sub3(&l, &P) };
  assert!(eq3(&x.0, &want));
}

/// must FAIL: vacuity canary for the Kani back end
#[kani::proof]
fn k_canary_must_fail() {
  let a = any_fp();
  assert!(a.0[0] != 7);
}

/// published constants: ground facts evaluated inside the verifier (no symbolic input)
#[kani::proof]
fn k_fp_consts() {
  assert!(Fp::NUM_BITS == 129);
  assert!(Fp::CAPACITY == 128);
  assert!(Fp::S == 1);
  // MODULUS string is the hex of p (big-endian text)
  assert!(Fp::MODULUS == "0x1000000000000000000000000000030a3");
  // R = 2^192 mod p in limbs; ONE is R (Montgomery form of 1): check via the encoding instead
  let one = Fp::ONE.to_repr();
  let mut e = [0u8; 24];
  e[0] = 1;
  assert!(one.0 == e);
  let two = Fp::ONE.double();
  assert!((Fp::TWO_INV * two) == Fp::ONE);
  let g = Fp::MULTIPLICATIVE_GENERATOR.to_repr();
  let mut e2 = [0u8; 24];
  e2[0] = 2;
  assert!(g.0 == e2);
  let r = Fp::ROOT_OF_UNITY;
  assert!(r * r == Fp::ONE);
  assert!(r != Fp::ONE);
  assert!(r == -Fp::ONE);
  assert!(r * Fp::ROOT_OF_UNITY_INV == Fp::ONE);
  // DELTA = generator^(2^S) = 2^2 = 4
  let d = Fp::DELTA.to_repr();
  let mut e4 = [0u8; 24];
  e4[0] = 4;
  assert!(d.0 == e4);
  // -1 encodes as p - 1
  let m1 = (-Fp::ONE).to_repr();
  let mut pm1 = [0u8; 24];
  pm1[0] = 0xa2; pm1[1] = 0x30; pm1[16] = 1;
  assert!(m1.0 == pm1);
}

// ---------------------------------------------------------------------------------------------
// Bounded stand-ins for the iterator-based functions Verus cannot take (never counted as proved)

/// cheap injective stand-in for to_repr (T-field: to_repr is injective on canonical residues); keeps
/// the Montgomery reduction out of the SAT problem where only DISTINCTNESS of encodings matters
fn stub_to_repr(f: &Fp) -> FpRepr {
  let mut b = [0u8; 24];
  b[0..8].copy_from_slice(&f.0[0].to_le_bytes());
  b[8..16].copy_from_slice(&f.0[1].to_le_bytes());
  b[16..24].copy_from_slice(&f.0[2].to_le_bytes());
  FpRepr(b)
}

static mut SEEN_LEN: usize = usize::MAX;
static mut SEEN_X: [[u64; 3]; 4] = [[0; 3]; 4];
/// records what `interpolate` is handed and returns a fixed answer
fn stub_interpolate(shares: &[Share]) -> Result<Vec<u8>, &'static str> {
  unsafe {
    SEEN_LEN = shares.len();
    let mut i = 0;
    while i < shares.len() && i < 4 {
      SEEN_X[i] = shares[i].x.0;
      i += 1;
    }
  }
  if shares.is_empty() { Err("Need at least one share to interpolate") } else { Ok(Vec::new()) }
}

// BTreeSet<Vec<u8>> makes CBMC run out of memory even for two shares (641k program steps); it is
// replaced by an array-backed set with the same observable behaviour (insert returns true iff the
// key was absent; len; is_empty).  ASSUMED: std's BTreeSet implements a set.
static mut SET_KEYS: [[u8; 24]; 4] = [[0; 24]; 4];
static mut SET_N: usize = 0;
fn stub_set_insert<T: Ord, A: core::alloc::Allocator + Clone>(_s: &mut alloc::collections::BTreeSet<T, A>, v: T) -> bool {
  unsafe {
    // star-sharks instantiates T = Vec<u8> holding a 24-byte encoding; any other key type of at most
    // 24 bytes (e.g. an integer key introduced by a change) is taken as its raw bytes
    let mut k = [0u8; 24];
    if core::mem::size_of::<T>() == 24 && core::mem::align_of::<T>() == 8 {
      let vv: &Vec<u8> = &*(&v as *const T as *const Vec<u8>);
      k.copy_from_slice(&vv[0..24]);
    } else {
      let n = core::mem::size_of::<T>();
      assert!(n <= 24);
      core::ptr::copy_nonoverlapping(&v as *const T as *const u8, k.as_mut_ptr(), n);
    }
    let a = limbs_of(&k);
    let mut i = 0;
    let mut found = false;
    while i < SET_N {
      let l = limbs_of(&SET_KEYS[i]);
      if l[0] == a[0] && l[1] == a[1] && l[2] == a[2] { found = true; }
      i += 1;
    }
    if !found {
      SET_KEYS[SET_N] = k;
      SET_N += 1;
    }
    !found
  }
}
/// Fp equality on canonical residues is limb equality (T-field); keeps ct_eq's byte loop out of the harness
fn stub_fp_ct_eq(a: &Fp, b: &Fp) -> subtle::Choice { subtle::Choice::from(eq3(&a.0, &b.0) as u8) }
fn stub_set_len<T, A: core::alloc::Allocator + Clone>(_s: &alloc::collections::BTreeSet<T, A>) -> usize { unsafe { SET_N } }
fn stub_set_is_empty<T, A: core::alloc::Allocator + Clone>(_s: &alloc::collections::BTreeSet<T, A>) -> bool { unsafe { SET_N == 0 } }

/// Sharks::recover = selection logic (C06/C02/C09): for N shares (concrete N) with symbolic x
/// (low limb 0..3, high limb 0..1 so that values differing by 2^128 occur), symbolic y-lengths 0..1
/// and symbolic threshold 0..N+1:
///   unequal y-lengths => Err;  threshold 0 or fewer distinct x than threshold => Err;
///   otherwise interpolate receives exactly the first `threshold` distinct-x shares in
///   first-occurrence order; never panics.
fn check_recover_selection<const N: usize>() { check_recover_selection_y::<N, true>() }
fn check_recover_selection_y<const N: usize, const YSYM: bool>() {
  let t: u32 = if YSYM { kani::any() } else { 3 };
  kani::assume(t as usize <= N + 1);
  let mut shares: Vec<Share> = Vec::with_capacity(N);
  let mut xs = [[0u64; 3]; N];
  let mut ls = [0usize; N];
  let mut i = 0;
  while i < N {
    let a: u8 = kani::any();
    let h: bool = if YSYM { kani::any() } else { false };
    kani::assume(a < if YSYM { 4 } else { 3 });
    let x = Fp([a as u64, 0, h as u64]);
    let l: bool = if YSYM { kani::any() } else { false };
    let y = if l { vec![Fp([1, 0, 0])] } else { Vec::new() };
    xs[i] = x.0;
    ls[i] = y.len();
    shares.push(Share { x, y });
    i += 1;
  }
  unsafe { SEEN_LEN = usize::MAX; SET_N = 0; }
  let sharks = crate::Sharks(t);
  let r = sharks.recover(&shares);
  // independent reference: first occurrences
  let mut lens_ok = true;
  let mut dx = [[0u64; 3]; N];
  let mut dn = 0usize;
  let mut i = 0;
  while i < N {
    if ls[i] != ls[0] { lens_ok = false; }
    let mut dup = false;
    let mut j = 0;
    while j < i {
      if eq3(&xs[j], &xs[i]) { dup = true; }
      j += 1;
    }
    if !dup { dx[dn] = xs[i]; dn += 1; }
    i += 1;
  }
  let ok = lens_ok && t >= 1 && dn >= t as usize;
  assert!(r.is_ok() == ok);
  if ok {
    unsafe {
      assert!(SEEN_LEN == t as usize);
      let mut k = 0;
      while k < t as usize && k < N {
        assert!(eq3(&SEEN_X[k], &dx[k]));
        k += 1;
      }
    }
  }
}
#[kani::proof]
#[kani::unwind(5)]
#[kani::stub(interpolate, stub_interpolate)]
#[kani::stub(<Fp as crate::ff::PrimeField>::to_repr, stub_to_repr)]
#[kani::stub(alloc::collections::BTreeSet::insert, stub_set_insert)]
#[kani::stub(alloc::collections::BTreeSet::len, stub_set_len)]
#[kani::stub(alloc::collections::BTreeSet::is_empty, stub_set_is_empty)]
#[kani::stub(<Fp as crate::ff::derive::subtle::ConstantTimeEq>::ct_eq, stub_fp_ct_eq)]
fn k_recover_selection_2() {
  check_recover_selection::<2>();
}
#[kani::proof]
#[kani::unwind(5)]
#[kani::stub(interpolate, stub_interpolate)]
#[kani::stub(<Fp as crate::ff::PrimeField>::to_repr, stub_to_repr)]
#[kani::stub(alloc::collections::BTreeSet::insert, stub_set_insert)]
#[kani::stub(alloc::collections::BTreeSet::len, stub_set_len)]
#[kani::stub(alloc::collections::BTreeSet::is_empty, stub_set_is_empty)]
#[kani::stub(<Fp as crate::ff::derive::subtle::ConstantTimeEq>::ct_eq, stub_fp_ct_eq)]
fn k_recover_selection_3() {
  check_recover_selection::<3>();
}
// (a 4-share instance - the smallest where a repeated share that is NOT adjacent to its original sits inside the first
// `threshold` positions - does not finish in CBMC within 10 minutes; the unbounded Verus proof of Sharks::recover covers it
// on the unchanged code, see DESIGN.md 10.8)

/// Vec<u8>::from(&Share) = x.to_repr() ++ y[0].to_repr() ++ ... (structure only; to_repr itself is
/// T-field), for y of length 0..1
#[kani::proof]
#[kani::unwind(26)]
#[kani::stub(<Fp as crate::ff::PrimeField>::to_repr, stub_to_repr)]
fn k_vec_from_share() {
  let has_y: bool = kani::any();
  let x = any_fp();
  let y0 = any_fp();
  let mut y = Vec::new();
  if has_y { y.push(y0); }
  let s = Share { x, y };
  let v: Vec<u8> = Vec::from(&s);
  assert!(v.len() == if has_y { 48 } else { 24 });
  assert!(v[0..24] == stub_to_repr(&x).0);
  if has_y { assert!(v[24..48] == stub_to_repr(&y0).0); }
}

/// the element encoder `Vec<u8>::from(Fp)` is exactly the 24 bytes of to_repr (to_repr itself is T-field:
/// replaced by the injective stand-in, so a truncated / reordered / padded copy shows up)
#[kani::proof]
#[kani::unwind(26)]
#[kani::stub(<Fp as crate::ff::PrimeField>::to_repr, stub_to_repr)]
fn k_vec_from_fp() {
  let x = any_fp();
  let v: Vec<u8> = Vec::from(x);
  let e = stub_to_repr(&x).0;
  assert!(v.len() == 24);
  let mut i = 0;
  while i < 24 {
    assert!(v[i] == e[i]);
    i += 1;
  }
}

static mut EVAL_X: [u64; 3] = [0; 3];
static mut EVAL_CALLS: usize = 0;
fn stub_evaluate(_e: &Evaluator, x: Fp) -> Share {
  unsafe { EVAL_X = x.0; EVAL_CALLS += 1; }
  Share { x, y: Vec::new() }
}
/// `Evaluator::next` (ASSUMED in Verus): advances the point by exactly one (field addition, proved by
/// k_fp_add), evaluates AT THE NEW POINT once, returns that share, leaves the polynomials alone.
/// Loop-free over every canonical starting point.
#[kani::proof]
#[kani::stub(Evaluator::evaluate, stub_evaluate)]
fn k_evaluator_next() {
  let x0 = any_fp();
  let mut ev = Evaluator { polys: Vec::new(), x: x0 };
  unsafe { EVAL_CALLS = 0; }
  let r = ev.next();
  let want = ref_add(&x0.0, &Fp::ONE.0);
  assert!(eq3(&ev.x.0, &want));
  assert!(ev.polys.len() == 0);
  unsafe {
    assert!(EVAL_CALLS == 1);
    assert!(eq3(&EVAL_X, &want));
  }
  match r {
    Some(sh) => assert!(eq3(&sh.x.0, &want)),
    None => assert!(false),
  }
}

/// `Evaluator::gen` (twin of the Verus proof): the share point is the FIRST NON-ZERO draw of the supplied random
/// source - zero draws are skipped however many there are (here: up to 3 leading zeros), never x = 0 - and the
/// polynomials are evaluated there exactly once.  Symbolic stream (draw d has limbs [vals[d], 0, 0]).
#[kani::proof]
#[kani::unwind(6)]
#[kani::stub(Evaluator::evaluate, stub_evaluate)]
fn k_gen_nonzero() {
  let vals: [u64; 5] = kani::any();
  kani::assume(vals[3] != 0);
  let mut rng = SeqRng { calls: 0, vals: Some(vals) };
  let ev = Evaluator { polys: Vec::new(), x: Fp::ZERO };
  unsafe { EVAL_CALLS = 0; }
  let sh = ev.gen(&mut rng);
  let k = if vals[0] != 0 { 0 } else if vals[1] != 0 { 1 } else if vals[2] != 0 { 2 } else { 3 };
  assert!(eq3(&sh.x.0, &[vals[k], 0, 0]));
  assert!(sh.x.0[0] != 0);
  assert!(rng.calls == 3 * (k as u64 + 1));
  unsafe { assert!(EVAL_CALLS == 1); }
}

// ---------------------------------------------------------------------------------------------
// Bounded TWINS of functions Verus proves unboundedly: they decide a function whose changed text is
// no longer within Verus' reach, and provide concrete counterexamples for Verus failures.

fn limbs_of(b: &[u8]) -> [u64; 3] {
  let mut l = [0u64; 3];
  let mut w = [0u8; 8];
  w.copy_from_slice(&b[0..8]);
  l[0] = u64::from_le_bytes(w);
  w.copy_from_slice(&b[8..16]);
  l[1] = u64::from_le_bytes(w);
  w.copy_from_slice(&b[16..24]);
  l[2] = u64::from_le_bytes(w);
  l
}

/// cheap stand-in for Fp::from_repr in the decoder twins: accept iff the limbs are below p (that the
/// REAL from_repr accepts exactly this range is proved by k_fp_from_repr_range) and return the limbs
/// unconverted - comparing two independently computed Montgomery products is a multiplier-equivalence
/// problem SAT does not finish.  The twins therefore check the decoders' control flow, slicing and
/// element order, with the field conversion abstracted (T-field).
fn stub_from_repr(r: FpRepr) -> subtle::CtOption<Fp> {
  let l = limbs_of(&r.0);
  subtle::CtOption::new(Fp(l), subtle::Choice::from(lt(&l, &P) as u8))
}

/// Share::try_from against the layout (24-byte LE elements, canonical range, trailing partial element
/// ignored) for EVERY byte string of the given concrete length (symbolic lengths blow up CBMC)
fn check_try_from<const N: usize>() {
  let buf: [u8; N] = kani::any();
  let s = &buf[..];
  let r = Share::try_from(s);
  if N < 24 {
    assert!(r.is_err());
    return;
  }
  let x_ok = lt(&limbs_of(&s[0..24]), &P);
  let has_y = N >= 48;
  let y_ok = !has_y || lt(&limbs_of(&s[24..48]), &P);
  assert!(r.is_ok() == (x_ok && y_ok));
  if let Ok(sh) = r {
    assert!(eq3(&sh.x.0, &limbs_of(&s[0..24])));
    assert!(sh.y.len() == if has_y { 1 } else { 0 });
    if has_y {
      assert!(eq3(&sh.y[0].0, &limbs_of(&s[24..48])));
    }
  }
}
#[kani::proof]
#[kani::unwind(4)]
#[kani::stub(<Fp as crate::ff::PrimeField>::from_repr, stub_from_repr)]
fn k_share_try_from() {
  check_try_from::<23>();
  check_try_from::<24>();
  check_try_from::<47>();
}
#[kani::proof]
#[kani::unwind(4)]
#[kani::stub(<Fp as crate::ff::PrimeField>::from_repr, stub_from_repr)]
fn k_share_try_from_y() {
  check_try_from::<48>();
}

/// deterministic RNG: the d-th (0-based) Fp::random draw consumes three next_u64 calls and yields the
/// element with limbs [101 + d, 0, 0] (Fp::random uses the masked raw limbs and accepts them since
/// they are below p, so its rejection loop runs exactly once)
struct SeqRng { calls: u64, vals: Option<[u64; 5]> }
impl rand::RngCore for SeqRng {
  fn next_u32(&mut self) -> u32 { self.next_u64() as u32 }
  fn next_u64(&mut self) -> u64 {
    let k = self.calls;
    self.calls += 1;
    if k % 3 != 0 { return 0; }
    match &self.vals {
      // symbolic stream (including zero draws and repeated values): draw d has limbs [vals[d], 0, 0]
      Some(v) => v[((k / 3) % 5) as usize],
      None => 101 + k / 3,
    }
  }
  fn fill_bytes(&mut self, dest: &mut [u8]) { let _ = dest; }
  fn try_fill_bytes(&mut self, dest: &mut [u8]) -> Result<(), rand::Error> { let _ = dest; Ok(()) }
}

/// random_polynomial: k coefficients (at least one), last = s, coefficient j is the j-th draw, in order;
/// k = 0..4 (concrete k: a symbolic Vec capacity blows up CBMC's memory model), symbolic s
fn check_random_polynomial(k: u32) {
  let s = any_fp();
  // the draws are SYMBOLIC (any u64 in the low limb, zero included): "every other coefficient is a
  // separate draw" must hold for every stream, also one whose draws are zero or repeat
  let vals: [u64; 5] = kani::any();
  let mut rng = SeqRng { calls: 0, vals: Some(vals) };
  let p = random_polynomial(s, k, &mut rng);
  let n = if k >= 1 { k as usize } else { 1 };
  assert!(p.len() == n);
  assert!(eq3(&p[n - 1].0, &s.0));
  let mut j = 0;
  while j + 1 < n {
    assert!(eq3(&p[j].0, &[vals[j], 0, 0]));
    j += 1;
  }
  assert!(rng.calls == 3 * (n as u64 - 1));
}
#[kani::proof]
#[kani::unwind(6)]
fn k_random_polynomial() {
  check_random_polynomial(0);
  check_random_polynomial(1);
  check_random_polynomial(2);
  check_random_polynomial(3);
  check_random_polynomial(4);
}

/// Sharks::dealer_rng: one polynomial per complete 24-byte element, refused iff some element is out
/// of range, constant terms = decoded elements, every other coefficient a separate draw in order;
/// every secret of the given concrete length, concrete threshold
fn check_dealer<const N: usize>(t: u32) {
  let buf: [u8; N] = kani::any();
  let secret = &buf[..];
  let mut rng = SeqRng { calls: 0, vals: None };
  let sharks = crate::Sharks(t);
  let r = sharks.dealer_rng(secret, &mut rng);
  let cnt = N / 24;
  let ok0 = cnt < 1 || lt(&limbs_of(&secret[0..24]), &P);
  let ok1 = cnt < 2 || lt(&limbs_of(&secret[24..48]), &P);
  assert!(r.is_ok() == (ok0 && ok1));
  if let Ok(ev) = r {
    assert!(eq3(&ev.x.0, &[0u64; 3]));
    assert!(ev.polys.len() == cnt);
    let m = if t >= 1 { t as usize } else { 1 };
    let mut i = 0;
    while i < cnt {
      assert!(ev.polys[i].len() == m);
      assert!(eq3(&ev.polys[i][m - 1].0, &limbs_of(&secret[24 * i..24 * i + 24])));
      let mut j = 0;
      while j + 1 < m {
        assert!(eq3(&ev.polys[i][j].0, &[101 + (i * (m - 1) + j) as u64, 0, 0]));
        j += 1;
      }
      i += 1;
    }
  }
}
#[kani::proof]
#[kani::unwind(6)]
#[kani::stub(<Fp as crate::ff::PrimeField>::from_repr, stub_from_repr)]
fn k_dealer_rng() {
  check_dealer::<23>(2);
  check_dealer::<24>(0);
  check_dealer::<25>(3);
}
#[kani::proof]
#[kani::unwind(6)]
#[kani::stub(<Fp as crate::ff::PrimeField>::from_repr, stub_from_repr)]
fn k_dealer_rng_2() {
  check_dealer::<48>(2);
}

/// the limb helpers every generated field operation is built from (complete, all inputs):
/// adc = a + b + carry, sbb = a - b - borrow, mac = a + b*c + carry, each as (low 64 bits, high part)
#[kani::proof]
fn k_ff_limb_helpers() {
  use crate::ff::derive::{adc, mac, sbb};
  let a: u64 = kani::any();
  let b: u64 = kani::any();
  let c: u64 = kani::any();
  let carry: u64 = kani::any();
  let (lo, hi) = adc(a, b, carry);
  let t = a as u128 + b as u128 + carry as u128;
  assert!(lo == t as u64 && hi == (t >> 64) as u64);
  let (lo, hi) = mac(a, b, c, carry);
  let t = a as u128 + (b as u128) * (c as u128) + carry as u128;
  assert!(lo == t as u64 && hi == (t >> 64) as u64);
  let (d, bo) = sbb(a, b, carry);
  let t = (a as u128).wrapping_sub(b as u128 + (carry >> 63) as u128);
  assert!(d == t as u64 && bo == (t >> 64) as u64);
}

// ---------------------------------------------------------------------------------------------
// Horner evaluation and Lagrange interpolation over a SMALL-FIELD MODEL of Fp (bounded stand-ins for
// the contracts of Evaluator::evaluate and interpolate that Verus assumes).  The operator impls of Fp
// are stubbed by arithmetic in GF(7): an Fp stands for the value `model(f)` (GF(251) made the SAT problems intractable).  What is checked is the
// real control flow of evaluate / interpolate (iteration order, which points are combined how, where
// the inverse is taken) against independent textbook formulas; the real 129-bit arithmetic is
// T-field / C07.
const Q: u32 = 7;
/// Montgomery form of one (limbs of Fp::ONE): the only non-model value the real code injects
fn model(f: &Fp) -> u32 {
  if eq3(&f.0, &Fp::ONE.0) { 1 } else { (f.0[0] % Q as u64) as u32 }
}
fn mk(v: u32) -> Fp { Fp([(v % Q) as u64, 0, 0]) }
fn sm_mul(a: Fp, b: Fp) -> Fp { mk(model(&a) * model(&b)) }
fn sm_add(a: Fp, b: Fp) -> Fp { mk(model(&a) + model(&b)) }
fn sm_add_ref<'r>(a: Fp, b: &'r Fp) -> Fp where 'r: 'r { mk(model(&a) + model(b)) }
fn sm_sub(a: Fp, b: Fp) -> Fp { mk(model(&a) + Q - model(&b)) }
fn pow_q(v: u32, e: u32) -> u32 {
  // square-and-multiply, 8 fixed steps (e < 256), loop-free
  let mut r = 1u32;
  let mut b = v % Q;
  r = if e & 1 != 0 { r * b % Q } else { r }; b = b * b % Q;
  r = if e & 2 != 0 { r * b % Q } else { r }; b = b * b % Q;
  r = if e & 4 != 0 { r * b % Q } else { r }; b = b * b % Q;
  r = if e & 8 != 0 { r * b % Q } else { r }; b = b * b % Q;
  r = if e & 16 != 0 { r * b % Q } else { r }; b = b * b % Q;
  r = if e & 32 != 0 { r * b % Q } else { r }; b = b * b % Q;
  r = if e & 64 != 0 { r * b % Q } else { r }; b = b * b % Q;
  r = if e & 128 != 0 { r * b % Q } else { r };
  r
}
fn sm_invert(a: &Fp) -> subtle::CtOption<Fp> {
  let v = model(a);
  subtle::CtOption::new(mk(pow_q(v, Q - 2)), subtle::Choice::from((v != 0) as u8))
}
fn sm_ct_eq(a: &Fp, b: &Fp) -> subtle::Choice { subtle::Choice::from((model(a) == model(b)) as u8) }
fn sm_to_repr(f: &Fp) -> FpRepr {
  let mut b = [0u8; 24];
  b[0] = model(f) as u8;
  FpRepr(b)
}
fn any_small() -> Fp {
  let v: u8 = kani::any();
  kani::assume((v as u32) < Q);
  mk(v as u32)
}
fn ref_horner(c: &[u32], x: u32) -> u32 {
  let mut acc = 0u32;
  let mut i = 0;
  while i < c.len() {
    acc = (acc * x + c[i]) % Q;
    i += 1;
  }
  acc
}

macro_rules! small_field {
  ($name:ident, $unwind:expr, $body:block) => {
    #[kani::proof]
    #[kani::unwind($unwind)]
    #[kani::stub(<Fp as core::ops::Mul<Fp>>::mul, sm_mul)]
    #[kani::stub(<Fp as core::ops::Add<Fp>>::add, sm_add)]
    #[kani::stub(<Fp as core::ops::Add<&Fp>>::add, sm_add_ref)]
    #[kani::stub(<Fp as core::ops::Sub<Fp>>::sub, sm_sub)]
    #[kani::stub(<Fp as crate::ff::Field>::invert, sm_invert)]
    #[kani::stub(<Fp as crate::ff::derive::subtle::ConstantTimeEq>::ct_eq, sm_ct_eq)]
    #[kani::stub(<Fp as crate::ff::PrimeField>::to_repr, sm_to_repr)]
    fn $name() $body
  };
}

// Evaluator::evaluate = Horner, coefficients from highest degree to the constant term, one y per
// polynomial in order: 2 polynomials of 3 coefficients, symbolic coefficients and point
small_field!(k_evaluate_horner, 5, {
  let c0 = [any_small(), any_small(), any_small()];
  let c1 = [any_small(), any_small(), any_small()];
  let x = any_small();
  let ev = Evaluator { polys: vec![c0.to_vec(), c1.to_vec()], x: Fp::ZERO };
  let s = ev.evaluate(x);
  assert!(model(&s.x) == model(&x));
  assert!(s.y.len() == 2);
  let r0 = ref_horner(&[model(&c0[0]), model(&c0[1]), model(&c0[2])], model(&x));
  let r1 = ref_horner(&[model(&c1[0]), model(&c1[1]), model(&c1[2])], model(&x));
  assert!(model(&s.y[0]) == r0);
  assert!(model(&s.y[1]) == r1);
});

// interpolate = Lagrange at zero: three points with x in {1, 2, 3} (GF(7); not a coset of the cubes, so x_i^2 differs from the product of the other two) in a SYMBOLIC ORDER on a symbolic
// polynomial of degree <= 2 return its constant term (encoded).  (Symbolic x makes the Lagrange
// identity a nonlinear problem SAT does not finish; with concrete abscissae the weights are constants.)
small_field!(k_interpolate_lagrange, 5, {
  let c = [any_small(), any_small(), any_small()];
  let cm = [model(&c[0]), model(&c[1]), model(&c[2])];
  let mut xs = [1u32, 2, 3];
  let s01: bool = kani::any();
  let s12: bool = kani::any();
  let s02: bool = kani::any();
  if s01 { xs.swap(0, 1); }
  if s12 { xs.swap(1, 2); }
  if s02 { xs.swap(0, 2); }
  let shares = [
    Share { x: mk(xs[0]), y: vec![mk(ref_horner(&cm, xs[0]))] },
    Share { x: mk(xs[1]), y: vec![mk(ref_horner(&cm, xs[1]))] },
    Share { x: mk(xs[2]), y: vec![mk(ref_horner(&cm, xs[2]))] },
  ];
  let r = interpolate(&shares);
  assert!(r.is_ok());
  let v = r.unwrap();
  assert!(v.len() == 24);
  assert!(v[0] as u32 == cm[2]);
});

// two points with SYMBOLIC distinct x on a symbolic line
small_field!(k_interpolate_lagrange_2, 5, {
  let c = [any_small(), any_small()];
  let cm = [model(&c[0]), model(&c[1])];
  let x0 = any_small();
  let x1 = any_small();
  kani::assume(model(&x0) != model(&x1));
  let shares = [
    Share { x: x0, y: vec![mk(ref_horner(&cm, model(&x0)))] },
    Share { x: x1, y: vec![mk(ref_horner(&cm, model(&x1)))] },
  ];
  let r = interpolate(&shares);
  assert!(r.is_ok());
  let v = r.unwrap();
  assert!(v.len() == 24);
  assert!(v[0] as u32 == cm[1]);
});
