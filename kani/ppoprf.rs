// E2 twins for ppoprf glue under "symbolic STROBE" (see kstrobe.rs).  Curve arithmetic is outside
// CBMC's reach, so only the hashing helper has a twin.  Injected under cfg(kani) only.
use super::*;
include!("/verif/kani/kstrobe.rs");

/// strobe_hash(input, label) = one key op absorbing the WHOLE input on the label state, then one
/// 64-byte RNG draw
fn check_strobe_hash<const N: usize>() {
  let input: [u8; N] = kani::any();
  let mut out = [0u8; 64];
  strobe_hash(&input, "ppoprf_finalize", &mut out);
  let mut t = Strobe::new(b"ppoprf_finalize", SecParam::B128);
  t.key(&input, false);
  t.meta_ad(&64u32.to_le_bytes(), false);
  let mut want = [0u8; 64];
  t.prf(&mut want, false);
  core::mem::forget(t);
  let mut i = 0;
  while i < 64 { assert!(out[i] == want[i]); i += 1; }
}

macro_rules! kstrobe_twin {
  ($name:ident, $unwind:expr, $body:block) => {
    #[kani::proof]
    #[kani::unwind($unwind)]
    #[kani::stub(strobe_rs::Strobe::new, ks_new)]
    #[kani::stub(strobe_rs::Strobe::ad, ks_ad)]
    #[kani::stub(strobe_rs::Strobe::meta_ad, ks_meta_ad)]
    #[kani::stub(strobe_rs::Strobe::key, ks_key)]
    #[kani::stub(strobe_rs::Strobe::prf, ks_prf)]
    #[kani::stub(<strobe_rs::Strobe as zeroize::Zeroize>::zeroize, ks_noop_zeroize)]
    #[kani::stub(<strobe_rs::Strobe as core::ops::Drop>::drop, ks_noop_zeroize)]
    #[kani::stub(zeroize::optimization_barrier, ks_noop_barrier)]
    fn $name() $body
  };
}
kstrobe_twin!(k_strobe_hash, 172, {
  check_strobe_hash::<0>();
  check_strobe_hash::<5>();
  check_strobe_hash::<170>();
});
/// must FAIL: vacuity canary of this family
kstrobe_twin!(k_canary_must_fail_ppo, 70, {
  let mut a = [0u8; 64];
  let mut b = [0u8; 64];
  strobe_hash(&[1, 2, 3], "x", &mut a);
  strobe_hash(&[1, 2, 4], "x", &mut b);
  assert!(a[0] == b[0] && a[1] == b[1] && a[2] == b[2]);
});

/// ProofDLEQ::i2osp2 (complete, all usize values that fit): big-endian two bytes; this also
/// discharges the contracts Verus ASSUMES for `u16::to_be_bytes` and `usize -> u16` try_into (N3/N7)
#[kani::proof]
fn k_i2osp2() {
  let x: usize = kani::any();
  kani::assume(x <= 65535);
  let b = ProofDLEQ::i2osp2(x);
  assert!(b[0] as usize == x / 256 && b[1] as usize == x % 256);
  let y: usize = kani::any();
  let r: Result<u16, _> = y.try_into();
  assert!(r.is_ok() == (y <= 65535));
  if let Ok(v) = r { assert!(v as usize == y); }
  let z: u16 = kani::any();
  let zb = z.to_be_bytes();
  assert!(zb[0] == (z >> 8) as u8 && zb[1] == (z & 0xff) as u8);
}

/// size guards of the two bincode loaders (repository-owned logic of C15, checked under C09/C13):
/// ground facts, no symbolic input.  An honest proof is 64 bytes, an honest public key over the full
/// tag space is 32 + 8 + 256 * (1 + 32) bytes in bincode's fixed-int layout (ASSUMED: T-serde), so the
/// guards must not be tighter than that; anything longer is refused before bincode sees it.
#[kani::proof]
#[kani::unwind(4)]
fn k_ppo_size_guards() {
  assert!(COMPRESSED_POINT_LEN == 32);
  assert!(DIGEST_LEN == 64);
  assert!(MAX_SERIALIZED_PROOF_SIZE >= 64);
  assert!(MAX_SERIALIZED_PK_SIZE >= 32 + 8 + 256 * (1 + 32));
  let big_proof = [0u8; MAX_SERIALIZED_PROOF_SIZE + 1];
  assert!(matches!(ProofDLEQ::load_from_bincode(&big_proof), Err(PPRFError::SerializedDataTooBig)));
  let big_pk = [0u8; MAX_SERIALIZED_PK_SIZE + 1];
  assert!(matches!(ServerPublicKey::load_from_bincode(&big_pk), Err(PPRFError::SerializedDataTooBig)));
}
