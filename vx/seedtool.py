#!/usr/bin/env python3
"""Seeded-change tooling.

  seedtool.py confirm <prop> <name> <diff> <demo.rs> <crate_dir> [worktree]
        confirm in a scratch worktree: with the change the full suite passes and the demo fails;
        without it the demo passes.  Prints a JSON verdict.
  seedtool.py run <seed_dir> [props...]
        apply /verif/seeded/<seed_dir>/patch.diff to /repo, run ./check for the listed properties
        (default: the property in meta.json), undo the change straight afterwards.  Prints verdicts.
  seedtool.py all
        `run` for every directory under /verif/seeded
"""
import sys, os, json, subprocess, shutil, re, time

VERIF = os.path.dirname(os.path.dirname(os.path.abspath(__file__)))
REPO = "/repo"

def sh(cmd, cwd=None, timeout=3600, env=None):
    e = dict(os.environ); e["CARGO_NET_OFFLINE"] = "true"
    if env: e.update(env)
    r = subprocess.run(cmd, cwd=cwd, shell=isinstance(cmd, str), stdout=subprocess.PIPE, stderr=subprocess.STDOUT,
                       text=True, timeout=timeout, env=e)
    return r.returncode, r.stdout

def confirm(prop, name, diff, demo, crate_dir, wt=None):
    own = wt is None
    if own:
        wt = "/tmp/wt/confirm-%s-%s" % (prop, name)
        sh("git -C %s worktree remove --force %s" % (REPO, wt))
        rc, out = sh("git -C %s worktree add -q --detach %s HEAD" % (REPO, wt))
        if rc: return {"ok": False, "why": "worktree: " + out}
    res = {"prop": prop, "name": name}
    try:
        sh("git checkout -q -- . && git clean -fdq -e target", cwd=wt)
        rc, out = sh("git apply %s" % diff, cwd=wt)
        if rc: return dict(res, ok=False, why="patch does not apply: " + out)
        rc, out = sh("cargo test --workspace --offline --no-fail-fast", cwd=wt, timeout=3000)
        fails = re.findall(r"^test .* FAILED$", out, flags=re.M)
        res["suite_with_change"] = "pass" if rc == 0 and not fails else "FAIL"
        res["suite_passed_tests"] = len(re.findall(r"^test .* ok$", out, flags=re.M))
        tdir = os.path.join(wt, crate_dir, "tests")
        os.makedirs(tdir, exist_ok=True)
        tname = "verif_demo_%s" % name
        shutil.copy(demo, os.path.join(tdir, tname + ".rs"))
        pkg = {"adss": "adss", "sharks": "star-sharks", "star": "sta-rs", "ppoprf": "ppoprf", "star-wasm": "star-wasm"}[crate_dir]
        feat = " --features key-sync" if "key-sync" in open(demo).read() else ""
        rc1, out1 = sh("cargo test -p %s --test %s --offline%s" % (pkg, tname, feat), cwd=wt, timeout=3000)
        res["demo_with_change"] = "fail" if rc1 != 0 else "PASS(unexpected)"
        res["demo_with_change_tail"] = out1[-600:]
        sh("git apply -R %s" % diff, cwd=wt)
        rc2, out2 = sh("cargo test -p %s --test %s --offline%s" % (pkg, tname, feat), cwd=wt, timeout=3000)
        res["demo_without_change"] = "pass" if rc2 == 0 else "FAIL(unexpected)"
        if rc2 != 0: res["demo_without_change_tail"] = out2[-600:]
        res["ok"] = (res["suite_with_change"] == "pass" and rc1 != 0 and rc2 == 0)
        return res
    finally:
        sh("git checkout -q -- . && git clean -fdq -e target", cwd=wt)
        if own:
            sh("git -C %s worktree remove --force %s" % (REPO, wt))

def prun(seed_dir, props=None, tier="quick"):
    """like run, but on a scratch copy of /repo (VERIF_REPO) with evidence redirected: safe to run in parallel
    and while /repo is being used by other checks"""
    import tempfile
    d = os.path.join(VERIF, "seeded", seed_dir)
    meta = json.load(open(os.path.join(d, "meta.json")))
    props = props or meta.get("run_properties") or [meta["property"]]
    base = tempfile.mkdtemp(prefix="verif-seed-%s-" % seed_dir, dir="/var/tmp")
    res = {}
    try:
        rc, out = sh("rsync -a --exclude /target --exclude /.git %s/ %s/repo/" % (REPO, base))
        rc, out = sh("git init -q . && git apply %s" % os.path.join(d, "patch.diff"), cwd=base + "/repo")
        if rc:
            return {"error": "patch does not apply: " + out}
        shutil.rmtree(base + "/repo/.git", ignore_errors=True)
        # private copy of the build caches: parallel runs from different source paths clobber a shared target dir
        sh("cp -a %s %s/cache" % (os.path.join(VERIF, ".cache"), base))
        for p in props:
            t0 = time.time()
            rc, out = sh([os.path.join(VERIF, "check"), p, "--tier", tier], cwd=VERIF, timeout=7200,
                         env={"VERIF_REPO": base + "/repo", "VERIF_OUT_DIR": base + "/out", "VERIF_CACHE": base + "/cache"})
            lines = [l for l in out.splitlines() if l.startswith(("VIOLATION", "KNOWN-FINDING", "UNDECIDED", "OK", "  - "))]
            res[p] = {"exit": rc, "lines": [l[:300] for l in lines][:12], "wall_s": round(time.time() - t0, 1)}
    finally:
        shutil.rmtree(base, ignore_errors=True)
    return res

def run(seed_dir, props=None):
    d = os.path.join(VERIF, "seeded", seed_dir)
    meta = json.load(open(os.path.join(d, "meta.json")))
    props = props or [meta["property"]]
    rc, out = sh("git -C %s status --porcelain --untracked-files=no" % REPO)
    if out.strip():
        return {"error": "/repo is dirty, refusing"}
    res = {}
    try:
        rc, out = sh("git -C %s apply %s" % (REPO, os.path.join(d, "patch.diff")))
        if rc:
            return {"error": "patch does not apply: " + out}
        for p in props:
            t0 = time.time()
            rc, out = sh([os.path.join(VERIF, "check"), p], cwd=VERIF, timeout=3600)
            lines = [l for l in out.splitlines() if l.startswith(("VIOLATION", "KNOWN-FINDING", "UNDECIDED", "OK", "  - "))]
            res[p] = {"exit": rc, "lines": [l[:300] for l in lines][:12], "wall_s": round(time.time() - t0, 1)}
    finally:
        sh("git -C %s checkout -- ." % REPO)
        # evidence written while a seeded change was applied must never be committed
        sh("git -C %s checkout -- evidence" % VERIF)
    return res

if __name__ == "__main__":
    if sys.argv[1] == "confirm":
        print(json.dumps(confirm(*sys.argv[2:]), indent=1))
    elif sys.argv[1] == "run":
        print(json.dumps(run(sys.argv[2], sys.argv[3:] or None), indent=1))
    elif sys.argv[1] == "prun":
        print(sys.argv[2], json.dumps(prun(sys.argv[2], sys.argv[3:] or None)), flush=True)
    elif sys.argv[1] == "pall":
        # every seeded change on its own scratch copy, N at a time
        import concurrent.futures as cf
        n = int(os.environ.get("SEED_JOBS", "3"))
        sds = [sd for sd in sorted(os.listdir(os.path.join(VERIF, "seeded"))) if os.path.exists(os.path.join(VERIF, "seeded", sd, "meta.json"))]
        sds = [sd for sd in sds if not sys.argv[2:] or any(sd.startswith(a) for a in sys.argv[2:])]
        with cf.ThreadPoolExecutor(n) as ex:
            for sd, r in zip(sds, ex.map(prun, sds)):
                print(sd, json.dumps(r), flush=True)
    elif sys.argv[1] == "all":
        for sd in sorted(os.listdir(os.path.join(VERIF, "seeded"))):
            if os.path.exists(os.path.join(VERIF, "seeded", sd, "meta.json")):
                print(sd, json.dumps(run(sd)))
