#!/usr/bin/env python3
"""dev.py <unit>  : emit + verify a unit against /repo (developer loop; prints human-readable errors)"""
import sys, os, json, subprocess
sys.path.insert(0, os.path.dirname(os.path.abspath(__file__)))
import emit, runner
unit = sys.argv[1]
repo = sys.argv[2] if len(sys.argv) > 2 else "/repo"
os.makedirs("/tmp/w", exist_ok=True)
subprocess.run(["rsync", "-a", "--delete", "--exclude", "/target", "--exclude", "/.git", repo + "/", "/tmp/sc/"], check=True)
import driver
pk = driver.UNITS[unit]["packages"]
for pkg, rel in driver.UNITS[unit].get("expand", []):
    runner.expand_crate("/tmp/sc", pkg, rel)
arts, deps, t = runner.build_deps("/tmp/sc", pk)
e = emit.Emitter("/tmp/sc", "/verif")
text = e.process("units/%s.vt" % unit)
out = "/tmp/w/vunit_%s.rs" % unit
open(out, "w").write(text)
for p in emit.check_faithful(e, text): print("UNFAITHFUL", p)
import driver
ext = {k: arts[v] for k, v in driver.UNITS[unit]["externs"].items()}
r = runner.run_verus(out, ext, deps, extra=sys.argv[3:])
for d in r["diags"]:
    if d.get("level") in ("error",) or (d.get("level") == "warning" and os.environ.get("W")):
        print(d.get("rendered", d.get("message")))
print(json.dumps(r["json"].get("verification-results")), "wall %.1fs build %.1fs" % (r["wall_s"], t))
if not r["json"]: print(r["stderr"][-3000:])
