"""Unit emitter: template (.vt) + /repo source  ->  one Verus file.

Template directives (each at the start of a line):

  //@include <path relative to /verif>
  //@fn <repo file> | <seg> | <seg> ...        e.g.  //@fn adss/src/lib.rs | impl Share | fn from_bytes
  //@struct <repo file> | struct Name
     option lines until //@end :
  //@ props C08 C09           properties whose check reports a failure of this function's contract
  //@ safety C09              property that owns body-safety obligations (panic/index/overflow/unwrap)
  //@ ret r                   name the return value  (N6)
  //@ name new_name           rename the emitted fn (used with cut)
  //@ sig <text>              replace the signature (used with cut only; recorded as a cut point)
  //@ cut <n>                 drop the first n top-level statements of the body (D4, recorded)
  //@ attr <text>             attribute line put in front, e.g. #[verifier::external_body]
  //@ mode assumed|proved     (default proved; external_body => assumed)
  //@ nopub                   do not add `pub` (trait impl methods)
  //@ spec                    following lines (until next //@ line) are requires/ensures/decreases text
  //@ loop <k> [iter <id>]    following lines: invariant/decreases text for the k-th loop (1-based)
  //@ closure <k>             following lines: `-> (name: T) ensures ...` for the k-th closure of the body
  //@ before <source text>    following lines: ghost text inserted before that token sequence
  //@ after <source text>     ... after it
  //@ after-stmt <source text> ... after the ';' ending the statement that contains it
  //@end

Everything inserted is wrapped in /*G{*/ ... /*}G*/ markers; rewrites N1-N5 are
recorded with their original tokens, so `check_faithful` can invert the
emission and compare with the source token stream.
"""
import os, re, json
from rustscan import File, tokenize, norm, strip_comments, match_brackets, ScanError

G_OPEN, G_CLOSE = "/*G{*/", "/*}G*/"

class EmitError(Exception):
    """tooling / anchor error: exit 2, never an alarm"""

class Piece:
    __slots__ = ("text", "src_file", "src_off")
    def __init__(self, text, src_file=None, src_off=None):
        self.text, self.src_file, self.src_off = text, src_file, src_off

REWRITE_RENAMES = [
    # (kind, original token texts, replacement token texts)
    ("N3", [".", "to_le_bytes", "(", ")"], [".", "v_to_le_bytes", "(", ")"]),
    ("N3", [".", "to_be_bytes", "(", ")"], [".", "v_to_be_bytes", "(", ")"]),
    ("N3", ["u32", ":", ":", "from_le_bytes", "("], ["v_u32_from_le_bytes", "("]),
    ("N2", ["Box", "<", "dyn", "Error", ">"], ["VErr"]),
    ("N7", [".", "try_into", "(", ")"], [".", "v_try_into", "(", ")"]),
    # N9: associated consts of the external field type (giving them a specification crashes Verus): wrapper
    # fns whose external_body IS the original expression; their contracts (value 0 / 1) are Kani obligations
    ("N9", ["Fp", ":", ":", "ZERO"], ["v_fp_zero", "(", ")"]),
    ("N9", ["Fp", ":", ":", "ONE"], ["v_fp_one", "(", ")"]),
    # N10 (unit ff, macro-expanded text): the limb helpers of the `ff` crate -> external_body wrappers whose body
    # IS the original call; contracts discharged by the complete Kani harness k_ff_limb_helpers
    ("N10", [":", ":", "ff", ":", ":", "derive", ":", ":", "mac"], ["ff_mac"]),
    ("N10", [":", ":", "ff", ":", ":", "derive", ":", ":", "adc"], ["ff_adc"]),
    ("N10", [":", ":", "ff", ":", ":", "derive", ":", ":", "byteorder", ":", ":", "LittleEndian", ":", ":", "write_u64_into"],
     ["ff_write_u64_into"]),
]

class FnRecord:
    def __init__(self):
        self.qname = None; self.file = None; self.src_line = None
        self.props = []; self.safety = None; self.mode = "proved"
        self.out_first = None; self.out_last = None
        self.rewrites = {}; self.cut = 0
        self.clauses = []   # (kind, text) of spliced ensures/requires/invariants
        self.ghost_pieces = []
        self.lost_hints = []   # ghost text that could not be placed (anchor / ordinal lost after a change)
        self.ghost_ranges = []  # (first_line, last_line, kind, text)

def _find_subseq(toks, lo, hi, pat):
    """indices i in [lo,hi) where toks[i:i+len(pat)] texts == pat"""
    res = []
    n = len(pat)
    for i in range(lo, hi - n + 1):
        ok = True
        for k in range(n):
            if toks[i + k].text != pat[k]:
                ok = False; break
        if ok:
            res.append(i)
    return res

class Emitter:
    def __init__(self, repo_root, verif_root, demote=None):
        self.repo, self.verif = repo_root, verif_root
        self.const_records = []
        self.demote = set(demote or [])   # qnames emitted as external_body (no longer within Verus' reach)
        self.files = {}
        self.records = []
        self.struct_records = []
        self.fmt_lits = []  # N4 literals
        self.pieces = []

    def file(self, rel):
        if rel not in self.files:
            p = os.path.join(self.repo, rel)
            if not os.path.exists(p):
                raise EmitError("lost anchor: file %s does not exist" % rel)
            src = open(p).read()
            try:
                self.files[rel] = File(rel, src)
            except ScanError as e:
                raise EmitError("cannot scan %s: %s" % (rel, e))
            self.files[rel].clean = strip_comments(src)
        return self.files[rel]

    # ------------------------------------------------------------------
    def process(self, template_rel):
        self._process_file(os.path.join(self.verif, template_rel))
        # N4: generated wrappers for literal-only format! calls (body IS the original call)
        gen = []
        for k, lit in enumerate(self.fmt_lits):
            gen.append("pub uninterp spec fn fmt_lit_%d_bytes() -> Seq<u8>;\n"
                       "#[verifier::external_body]\n"
                       "pub fn fmt_lit_%d() -> (r: String)\n"
                       "    ensures string_bytes(r) == fmt_lit_%d_bytes(), fmt_lit_%d_bytes().len() <= 65535\n"
                       "{ %s }\n" % (k + 1, k + 1, k + 1, k + 1, lit.replace("\n", " ")))
        for pc in self.pieces:
            if pc.text == "//@@FMT_LITS@@\n":
                pc.text = "".join(gen) if gen else "\n"
        text = "".join(p.text for p in self.pieces)
        # final line numbers of every record (pieces may have been replaced above)
        starts = []
        ln = 1
        for pc in self.pieces:
            starts.append(ln); ln += pc.text.count("\n")
        starts.append(ln)
        for rec in self.records:
            rec.out_first = starts[rec.p_first]
            rec.out_last = starts[rec.p_last]
            rec.ghost_ranges = [(starts[gp], starts[gp + 1], kind) for gp, kind in rec.ghost_pieces]
        # line table
        self.line_src = {}
        line = 1
        for p in self.pieces:
            if p.src_file is not None:
                F = self.files[p.src_file]
                src_line = F.src.count("\n", 0, p.src_off) + 1
                for k in range(p.text.count("\n") + 1):
                    self.line_src[line + k] = (p.src_file, src_line + k)
            line += p.text.count("\n")
        return text

    def _out(self, text, src_file=None, src_off=None):
        self.pieces.append(Piece(text, src_file, src_off))

    def _cur_line(self):
        return sum(p.text.count("\n") for p in self.pieces) + 1

    def _process_file(self, path):
        lines = open(path).read().split("\n")
        i = 0
        while i < len(lines):
            ln = lines[i]
            if ln.startswith("//@fmt_lits"):
                self._out("//@@FMT_LITS@@\n"); i += 1; continue
            if ln.startswith("//@include "):
                self._process_file(os.path.join(self.verif, ln.split(None, 1)[1].strip()))
                i += 1; continue
            if ln.startswith("//@consts "):
                # every top-level `const` item of the file, verbatim (visibility widened, attributes dropped):
                # constants the verified bodies use - including ones a change introduces - come from the
                # source, never from the template
                parts = [x.strip() for x in ln.split(None, 1)[1].split("|")]
                rel = parts[0]
                F = self.file(rel)
                items, names = F.items, None
                for seg in parts[1:]:
                    if seg.startswith("mod "):
                        try:
                            items = F.find([seg]).children
                        except LookupError as e:
                            raise EmitError("lost anchor: %s" % e)
                    else:
                        names = seg.split()
                n = 0
                for it in items:
                    if it.kind == "const" and it.body_open is None and (names is None or it.name in names):
                        self._out("pub " + F.clean[F.toks[it.kw].start:F.toks[it.end].end] + "\n", F.path, F.toks[it.kw].start)
                        self.const_records.append({"name": it.name, "file": rel,
                                                   "line": F.src.count("\n", 0, F.toks[it.kw].start) + 1,
                                                   "text": re.sub(r"\s+", " ", F.clean[F.toks[it.kw].start:F.toks[it.end].end])})
                        n += 1
                i += 1; continue
            if ln.startswith("//@fn ") or ln.startswith("//@struct ") or ln.startswith("//@enum "):
                j = i + 1
                while not lines[j].startswith("//@end"):
                    j += 1
                self._emit_item(ln, lines[i + 1:j])
                i = j + 1; continue
            self._out(ln + "\n")
            i += 1

    # ------------------------------------------------------------------
    def _parse_opts(self, optlines):
        opts = {"props": [], "safety": None, "ret": None, "name": None, "sig": None, "cut": 0,
                "attr": [], "mode": None, "nopub": False, "spec": None, "loops": {}, "anchors": []}
        cur = None
        for ln in optlines:
            if ln.startswith("//@"):
                body = ln[3:].strip()
                key, _, rest = body.partition(" ")
                rest = rest.strip()
                cur = None
                if key == "props": opts["props"] = rest.split()
                elif key == "safety": opts["safety"] = rest
                elif key == "ret": opts["ret"] = rest
                elif key == "name": opts["name"] = rest
                elif key == "sig": opts["sig"] = rest
                elif key == "expect-sig": opts["expect_sig"] = rest
                elif key == "cut": opts["cut"] = int(rest)
                elif key == "attr": opts["attr"].append(rest)
                elif key == "mode": opts["mode"] = rest
                elif key == "nopub": opts["nopub"] = True
                elif key == "spec":
                    opts["spec"] = []; cur = opts["spec"]
                elif key == "loop":
                    parts = rest.split()
                    k = int(parts[0]); it = parts[2] if len(parts) >= 3 and parts[1] == "iter" else None
                    opts["loops"][k] = {"iter": it, "text": []}; cur = opts["loops"][k]["text"]
                elif key == "closure":
                    opts.setdefault("closures", {})[int(rest)] = []; cur = opts["closures"][int(rest)]
                elif key == "begin":
                    # ghost text at the very start of the function body (robust against any restructuring of the body)
                    opts["begin"] = []; cur = opts["begin"]
                elif re.match(r"(before|after|after-stmt)(\[\d+\])?$", key):
                    mm = re.match(r"(before|after|after-stmt)(\[(\d+)\])?$", key)
                    a = {"where": mm.group(1), "anchor": rest, "text": [], "nth": int(mm.group(3)) if mm.group(3) else None}
                    opts["anchors"].append(a); cur = a["text"]
                else:
                    raise EmitError("unknown directive %r" % ln)
            else:
                if cur is None:
                    if ln.strip():
                        raise EmitError("stray text in directive block: %r" % ln)
                else:
                    cur.append(ln)
        return opts

    def _emit_item(self, head, optlines):
        kind = "fn" if head.startswith("//@fn ") else ("enum" if head.startswith("//@enum ") else "struct")
        spec = head.split(None, 1)[1]
        parts = [s.strip() for s in spec.split("|")]
        rel, path = parts[0], parts[1:]
        F = self.file(rel)
        try:
            it = F.find(path)
        except LookupError as e:
            raise EmitError("lost anchor: %s" % e)
        opts = self._parse_opts(optlines)
        if kind == "enum":
            self._emit_enum(F, it, opts)
        elif kind == "struct":
            self._emit_struct(F, it, opts)
        else:
            self._emit_fn(F, it, path, opts)

    # ------------------------------------------------------------------
    def _emit_struct(self, F, it, opts):
        toks = F.toks
        for a in opts["attr"]:
            self._out(a + "\n")
        # header `struct Name<..>` up to the field group
        j = it.kw
        while toks[j].text not in ("{", "(", ";"):
            j += 1
        self._out("pub " + F.clean[toks[it.kw].start:toks[j].start], F.path, toks[it.kw].start)
        if toks[j].text == ";":
            self._out(";\n"); return
        close = F.match[j]
        self._out(toks[j].text)
        # fields
        k = j + 1
        first = True
        while k < close:
            # skip attributes
            while toks[k].text == "#":
                k = F.match[k + 1] + 1
            # skip visibility
            if toks[k].text == "pub":
                k += 1
                if toks[k].text == "(":
                    k = F.match[k] + 1
            # field runs to next ',' at depth 0
            e = k
            depth = 0
            while e < close:
                t = toks[e].text
                if toks[e].kind == "punct" and t in ("(", "[", "{"):
                    e = F.match[e] + 1; continue
                if t == "<": depth += 1
                elif t == ">": depth -= 1
                elif t == "," and depth == 0: break
                e += 1
            self._out("\n  pub " + F.clean[toks[k].start:toks[e - 1].end] + ",", F.path, toks[k].start)
            k = e + 1
        self._out("\n" + toks[close].text)
        if toks[close].text == ")":
            self._out(";")
        self._out("\n")
        self.struct_records.append({"name": it.name, "file": F.path,
                                    "line": F.src.count("\n", 0, toks[it.kw].start) + 1})

    def _emit_enum(self, F, it, opts):
        """enum verbatim, attributes (derives, per-variant display attributes) dropped (D1)"""
        toks = F.toks
        for a in opts["attr"]:
            self._out(a + "\n")
        self._out("pub ")
        pos = toks[it.kw].start
        k = it.kw
        while k <= it.end:
            if toks[k].text == "#" and toks[k + 1].text == "[":
                c = F.match[k + 1]
                self._out(F.clean[pos:toks[k].start], F.path, pos)
                pos = toks[c].end
                k = c + 1; continue
            k += 1
        self._out(F.clean[pos:toks[it.end].end], F.path, pos)
        self._out("\n")
        self.struct_records.append({"name": it.name, "file": F.path,
                                    "line": F.src.count("\n", 0, toks[it.kw].start) + 1})

    # ------------------------------------------------------------------
    def _emit_fn(self, F, it, path, opts):
        toks, match = F.toks, F.match
        rec = FnRecord()
        rec.qname = "::".join(s.split(" ", 1)[1] if s.startswith("fn ") else s for s in path)
        if opts["name"]:
            rec.qname += " (emitted as %s)" % opts["name"]
        rec.file = F.path
        rec.src_line = F.src.count("\n", 0, toks[it.kw].start) + 1
        rec.props, rec.safety = opts["props"], opts["safety"]
        rec.mode = opts["mode"] or ("assumed" if any("external_body" in a for a in opts["attr"]) else "proved")
        rec.demoted = False
        if rec.qname in self.demote and rec.mode == "proved":
            # keep the contract (callers are still checked against it) but do not verify the body; loop
            # invariants / proof hints are dropped because they may not even type-check any more
            opts["attr"] = list(opts["attr"]) + ["#[verifier::external_body]"]
            opts["loops"] = {}; opts["anchors"] = []; opts["closures"] = {}; opts["begin"] = None
            rec.mode = "demoted"; rec.demoted = True
            opts["drop_body"] = True
        if rec.mode == "assumed" and opts["sig"] is None and not opts.get("cut"):
            # a function ASSUMED in Verus (external_body) is never looked into by the verifier, but rustc still
            # type-checks its body inside the unit: a change there (new import, new helper) would turn the
            # whole unit into a tool error.  Only signature + contract are emitted; its Kani stand-ins decide it.
            opts["drop_body"] = True
        if it.body_open is None:
            raise EmitError("fn %s has no body" % rec.qname)
        in_trait_impl = opts["nopub"]
        edits = []  # (start_off, end_off, replacement, is_ghost)
        kw, bo, end = it.kw, it.body_open, it.end

        # ---- N6 return naming / signature
        if opts["sig"] is None:
            if opts["ret"]:
                # find '->' at depth 0 between kw and bo
                k = kw
                arrow = None
                while k < bo:
                    if toks[k].kind == "punct" and toks[k].text in ("(", "["):
                        k = match[k] + 1; continue
                    if toks[k].text == "-" and toks[k + 1].text == ">" and toks[k + 1].start == toks[k].end:
                        arrow = k; break
                    k += 1
                if arrow is not None:
                    e = arrow + 2
                    while e < bo and not (toks[e].kind == "ident" and toks[e].text == "where"):
                        if toks[e].kind == "punct" and toks[e].text in ("(", "["):
                            e = match[e] + 1; continue
                        e += 1
                    edits.append((toks[arrow + 2].start, toks[arrow + 2].start, "(%s: " % opts["ret"], "N6"))
                    edits.append((toks[e - 1].end, toks[e - 1].end, ")", "N6"))
                    rec.rewrites["N6"] = rec.rewrites.get("N6", 0) + 1
            if opts["name"]:
                edits.append((toks[kw + 1].start, toks[kw + 1].end, opts["name"], "name"))
                rec.renamed = (opts["name"], toks[kw + 1].text)
                rec.rewrites["N11"] = rec.rewrites.get("N11", 0) + 1
        else:
            edits.append((toks[kw].start, toks[bo - 1].end, opts["sig"], "sig"))
            if opts.get("expect_sig") is not None:
                # N8: the emitted signature is a monomorphic INSTANCE of the source signature (generic parameter
                # replaced by the type the workspace callers use); the source signature must still be the one
                # the instance was derived from, otherwise the anchor is lost (exit 2)
                have = [t.text for t in toks[kw:bo]]
                want = [t.text for t in tokenize(opts["expect_sig"])]
                if have != want:
                    raise EmitError("lost anchor: signature of %s (found %s)" % (rec.qname, " ".join(have)[:200]))
                rec.rewrites["N8"] = rec.rewrites.get("N8", 0) + 1
                rec.sig_instance = opts["sig"]

        # ---- spec before body
        if opts["spec"] is not None:
            txt = "\n".join(opts["spec"])
            edits.append((toks[bo].start, toks[bo].start, "\n" + G_OPEN + "\n" + txt + "\n" + G_CLOSE + "\n", "ghost:spec"))
            rec.clauses.append(("spec", txt))

        # ---- cut (D4)
        body_lo = bo + 1
        if opts["cut"]:
            n, k = 0, bo + 1
            while k < end and n < opts["cut"]:
                if toks[k].kind == "punct" and toks[k].text in ("(", "[", "{"):
                    k = match[k] + 1; continue
                if toks[k].text == ";":
                    n += 1
                k += 1
            if n < opts["cut"]:
                raise EmitError("lost anchor: cut %d in %s" % (opts["cut"], rec.qname))
            edits.append((toks[bo + 1].start, toks[k - 1].end, "", "cut"))
            body_lo = k
            rec.cut = opts["cut"]
            rec.cut_text = F.clean[toks[bo + 1].start:toks[k - 1].end]

        # ---- loops
        loop_idx = []
        k = body_lo
        while k < end:
            t = toks[k]
            if t.kind == "ident" and t.text in ("for", "while", "loop"):
                if t.text == "for" and toks[k + 1].text == "<":
                    k += 1; continue
                loop_idx.append(k)
            k += 1
        for n, L in opts["loops"].items():
            if n < 1 or n > len(loop_idx):
                rec.lost_hints.append("loop %d invariant (found %d loops)" % (n, len(loop_idx))); continue
            k = loop_idx[n - 1]
            # body '{' : first '{' at paren/bracket depth 0 after keyword
            b = k + 1
            while toks[b].text != "{":
                if toks[b].kind == "punct" and toks[b].text in ("(", "["):
                    b = match[b] + 1; continue
                b += 1
            if L["iter"]:
                # insert `<id>: ` after `in`
                q = k + 1
                while not (toks[q].kind == "ident" and toks[q].text == "in"):
                    q += 1
                edits.append((toks[q + 1].start, toks[q + 1].start, G_OPEN + L["iter"] + ":" + G_CLOSE + " ", "ghost:iter"))
            txt = "\n".join(L["text"])
            edits.append((toks[b].start, toks[b].start, "\n" + G_OPEN + "\n" + txt + "\n" + G_CLOSE + "\n", "ghost:loop%d" % n))
            rec.clauses.append(("loop%d" % n, txt))

        # ---- closures: ghost header (return name + ensures); an expression body is wrapped in
        # ghost braces (stripped again by the faithfulness check)
        rec.unannotated_closures = 0
        if True:
            cl = []
            k = body_lo
            while k < end:
                if toks[k].text == "|" and toks[k - 1].text in ("(", ",", "=", "move", "{", ";"):
                    q = k + 1
                    while toks[q].text != "|":
                        if toks[q].kind == "punct" and toks[q].text in ("(", "[", "{"):
                            q = match[q]
                        q += 1
                    cl.append((k, q)); k = q + 1; continue
                k += 1
            rec.unannotated_closures = max(0, len(cl) - len(opts.get("closures") or {}))
            for n, lines in (opts.get("closures") or {}).items():
                if n < 1 or n > len(cl):
                    rec.lost_hints.append("closure %d header (found %d closures)" % (n, len(cl))); continue
                k, q = cl[n - 1]
                b = q + 1
                txt = "\n".join(lines)
                if toks[b].text == "{":
                    edits.append((toks[b].start, toks[b].start, G_OPEN + " " + txt + " " + G_CLOSE, "ghost:closure"))
                else:
                    e = b
                    while e < end:
                        if toks[e].kind == "punct" and toks[e].text in ("(", "[", "{"):
                            e = match[e] + 1; continue
                        if toks[e].text in (",", ")", "]", "}", ";"):
                            break
                        e += 1
                    edits.append((toks[b].start, toks[b].start, G_OPEN + " " + txt + " { " + G_CLOSE, "ghost:closure"))
                    edits.append((toks[e - 1].end, toks[e - 1].end, G_OPEN + " } " + G_CLOSE, "ghost:closure"))
                rec.clauses.append(("closure%d" % n, txt))

        # ---- ghost text at body start
        if opts.get("begin") and not opts.get("cut"):
            txt = "\n".join(opts["begin"])
            edits.append((toks[bo].end, toks[bo].end, "\n" + G_OPEN + "\n" + txt + "\n" + G_CLOSE + "\n", "ghost:anchor"))
            rec.clauses.append(("begin", txt))
        # ---- anchors
        for a in opts["anchors"]:
            pat = [t.text for t in tokenize(a["anchor"])]
            hits = _find_subseq(toks, body_lo, end, pat)
            if not hits and "let" in pat:
                # `let x =` became `let mut x =` (or the reverse): same statement, the hint still belongs there
                alt = []
                for i, tk in enumerate(pat):
                    if tk == "mut" and i > 0 and pat[i - 1] == "let":
                        continue
                    alt.append(tk)
                    if tk == "let" and not (i + 1 < len(pat) and pat[i + 1] == "mut"):
                        alt.append("mut")
                hits = _find_subseq(toks, body_lo, end, alt)
                if hits:
                    pat = alt
            if a["nth"] is not None:
                if len(hits) < a["nth"]:
                    rec.lost_hints.append("proof hint at %r[%d] (%d matches)" % (a["anchor"], a["nth"], len(hits))); continue
                h = hits[a["nth"] - 1]
            elif len(hits) != 1:
                rec.lost_hints.append("proof hint at %r (%d matches)" % (a["anchor"], len(hits))); continue
            else:
                h = hits[0]
            if a["where"] == "before":
                off = toks[h].start
            elif a["where"] == "after":
                off = toks[h + len(pat) - 1].end
            else:  # after-stmt: after the ';' that ends the statement containing the match
                q = h
                while q < end and toks[q].text != ";":
                    if toks[q].kind == "punct" and toks[q].text in ("(", "[", "{"):
                        q = match[q]
                    q += 1
                off = toks[q].end
            txt = "\n".join(a["text"])
            edits.append((off, off, "\n" + G_OPEN + "\n" + txt + "\n" + G_CLOSE + "\n", "ghost:anchor"))
            rec.clauses.append(("proof@" + a["anchor"], txt))

        # ---- token rewrites over signature+body
        lo_tok = kw if opts["sig"] is None else bo
        for kind, pat, rep in REWRITE_RENAMES:
            for h in _find_subseq(toks, lo_tok, end + 1, pat):
                if h < body_lo and h > bo:
                    continue  # inside the cut
                edits.append((toks[h].start, toks[h + len(pat) - 1].end, "".join(
                    (" " + r + " ") if re.match(r"\w", r) else r for r in rep).strip(), kind))
                rec.rewrites[kind] = rec.rewrites.get(kind, 0) + 1
        # N1 closure parameter `_`  :  `|_|` or `| _ ,` patterns
        k = body_lo
        nclos = 0
        while k < end:
            if toks[k].text == "|" and toks[k + 1].text == "_" and toks[k + 2].text == "|":
                nclos += 1
                edits.append((toks[k + 1].start, toks[k + 1].end, "_v%d" % nclos, "N1"))
                rec.rewrites["N1"] = rec.rewrites.get("N1", 0) + 1
                k += 3; continue
            k += 1
        # N12 `for &x in ITER {` (ref pattern, unsupported by Verus) -> `for x__ref in ITER { let x = *x__ref;`
        # (the pattern `&x` binds x to the dereferenced item: a local, mechanical desugaring, inverted by the self-check)
        k = body_lo
        while k < end:
            if toks[k].text == "for" and toks[k + 1].text == "&" and toks[k + 2].kind == "ident" and toks[k + 3].text == "in":
                nm = toks[k + 2].text
                q = k + 4
                while q < end and toks[q].text != "{":
                    if toks[q].kind == "punct" and toks[q].text in ("(", "["):
                        q = match[q]
                    q += 1
                edits.append((toks[k + 1].start, toks[k + 2].end, "%s__ref" % nm, "N12"))
                edits.append((toks[q].end, toks[q].end, " /*N12{*/ let %s = *%s__ref; /*}N12*/" % (nm, nm), "N12"))
                rec.rewrites["N12"] = rec.rewrites.get("N12", 0) + 1
                k = q + 1; continue
            k += 1
        # N5 panic!(..) -> vpanic()
        k = body_lo
        while k < end:
            if toks[k].kind == "ident" and toks[k].text == "panic" and toks[k + 1].text == "!":
                c = match[k + 2]
                edits.append((toks[k].start, toks[c].end, "vpanic()", "N5"))
                rec.rewrites["N5"] = rec.rewrites.get("N5", 0) + 1
                k = c + 1; continue
            # N4 format!(literals only)
            if toks[k].kind == "ident" and toks[k].text == "format" and toks[k + 1].text == "!":
                c = match[k + 2]
                inner = toks[k + 3:c]
                if all(t.kind in ("string", "number", "char") or t.text == "," for t in inner):
                    lit = F.src[toks[k].start:toks[c].end]
                    if lit not in self.fmt_lits:
                        self.fmt_lits.append(lit)
                    idx = self.fmt_lits.index(lit) + 1
                    edits.append((toks[k].start, toks[c].end, "fmt_lit_%d()" % idx, "N4"))
                    rec.rewrites["N4"] = rec.rewrites.get("N4", 0) + 1
                k = c + 1; continue
            k += 1

        if opts.get("drop_body"):
            # the changed body does not even compile in the unit (new helper, unsupported syntax): keep
            # signature + contract only.  Verus never looks into an external_body.
            edits = [e for e in edits if e[1] <= toks[bo].start or e[3] in ("sig",)]
            edits.append((toks[bo].start, toks[end].end, "{ unimplemented!() }", "dropbody"))
            rec.body_dropped = True
        # ---- apply edits
        edits.sort(key=lambda e: (e[0], e[1]))
        for a, b in zip(edits, edits[1:]):
            if b[0] < a[1]:
                raise EmitError("overlapping edits in %s: %r %r" % (rec.qname, a, b))
        for a in opts["attr"]:
            self._out(a + "\n")
        rec.out_first = self._cur_line(); rec.p_first = len(self.pieces)
        if not in_trait_impl and opts["sig"] is None:
            self._out("pub ")
        pos = toks[kw].start
        stop = toks[end].end
        for (s, e, rep, kind) in edits:
            if s > pos:
                self._out(F.clean[pos:s], F.path, pos)
            gp = len(self.pieces)
            self._out(rep)
            if kind.startswith("ghost"):
                rec.ghost_pieces.append((gp, kind))
            pos = max(pos, e)
        if pos < stop:
            self._out(F.clean[pos:stop], F.path, pos)
        rec.out_last = self._cur_line(); rec.p_last = len(self.pieces)
        self._out("\n")
        rec.src_tokens = [t.text for t in toks[kw:end + 1]]
        import hashlib as _h
        rec.src_hash = _h.sha1(" ".join(rec.src_tokens).encode()).hexdigest()[:16]
        self.records.append(rec)

# ----------------------------------------------------------------------
def check_faithful(emitter, out_text):
    """Invert the emission of every fn and compare with the source tokens.
    Returns list of problems (empty = faithful)."""
    problems = []
    lines = out_text.split("\n")
    for rec in emitter.records:
        if getattr(rec, "demoted", False) or getattr(rec, "body_dropped", False):
            continue
        seg = "\n".join(lines[rec.out_first - 1:rec.out_last])
        # drop ghost
        seg = re.sub(re.escape(G_OPEN) + r".*?" + re.escape(G_CLOSE), " ", seg, flags=re.S)
        seg = re.sub(r"/\*N12\{\*/.*?/\*\}N12\*/", " ", seg, flags=re.S)
        try:
            toks = [t.text for t in tokenize(seg)]
        except ScanError as e:
            problems.append("%s: cannot re-scan emitted text (%s)" % (rec.qname, e)); continue
        if toks and toks[0] == "pub":
            toks = toks[1:]
        src = list(rec.src_tokens)
        # invert rewrites on the emitted side
        if getattr(rec, "renamed", None) and rec.renamed[0] in toks:
            toks[toks.index(rec.renamed[0])] = rec.renamed[1]      # N11: emitted under another name
        inv = _invert(toks, emitter)
        # N6: remove `( r :` ... `)` around return type -> compare modulo those tokens
        if getattr(rec, "cut", 0) or "sig" in [k for k in []]:
            pass
        a = _canon(inv)
        b = _canon(_invert_src(src))
        if rec.cut:
            # signature replaced and prologue dropped: compare the tail only
            cut_toks = _canon(_invert_src([t.text for t in tokenize(rec.cut_text)]))
            # body of b after the cut prologue
            bi = b.index("{")
            b_tail = b[bi + 1 + len(cut_toks):]
            ai = a.index("{")
            a_tail = a[ai + 1:]
            if a_tail != b_tail:
                problems.append("%s: emitted tail differs from source after the cut" % rec.qname)
            continue
        if getattr(rec, "sig_instance", None):
            a = a[a.index("{"):]; b = b[b.index("{"):]
        if a != b:
            # locate first difference
            k = 0
            while k < min(len(a), len(b)) and a[k] == b[k]:
                k += 1
            problems.append("%s: emitted text differs from source at token %d: %r vs %r" % (
                rec.qname, k, a[k:k + 6], b[k:k + 6]))
    return problems

def _invert(toks, emitter):
    out = []
    i = 0
    while i < len(toks):
        t = toks[i]
        if t == "v_to_le_bytes": out.append("to_le_bytes")
        elif t == "v_to_be_bytes": out.append("to_be_bytes")
        elif t == "v_try_into": out.append("try_into")
        elif t == "v_u32_from_le_bytes": out.extend(["u32", ":", ":", "from_le_bytes"])
        elif t == "VErr": out.extend(["Box", "<", "dyn", "Error", ">"])
        elif re.match(r"_v\d+$", t): out.append("_")
        elif t.endswith("__ref") and i > 0 and toks[i - 1] == "for":
            out.extend(["&", t[:-5]])
        elif t in ("ff_mac", "ff_adc"):
            out.extend([":", ":", "ff", ":", ":", "derive", ":", ":", t[3:]])
        elif t == "ff_write_u64_into":
            out.extend([":", ":", "ff", ":", ":", "derive", ":", ":", "byteorder", ":", ":", "LittleEndian", ":", ":", "write_u64_into"])
        elif t in ("v_fp_zero", "v_fp_one") and toks[i + 1:i + 3] == ["(", ")"]:
            out.extend(["Fp", ":", ":", "ZERO" if t == "v_fp_zero" else "ONE"]); i += 3; continue
        elif t == "vpanic" and toks[i + 1:i + 3] == ["(", ")"]:
            out.append("<PANIC>"); i += 3; continue
        elif re.match(r"fmt_lit_\d+$", t) and toks[i + 1:i + 3] == ["(", ")"]:
            out.append("<FMT>"); i += 3; continue
        else: out.append(t)
        i += 1
    return out

def _invert_src(toks):
    """source side: collapse panic!(..)/format!(..) groups to the same placeholders"""
    out = []
    i = 0
    while i < len(toks):
        if toks[i] in ("panic", "format") and i + 1 < len(toks) and toks[i + 1] == "!":
            # skip balanced group
            depth, j = 0, i + 2
            while True:
                if toks[j] in ("(", "[", "{"): depth += 1
                elif toks[j] in (")", "]", "}"):
                    depth -= 1
                    if depth == 0: break
                j += 1
            out.append("<PANIC>" if toks[i] == "panic" else "<FMT>")
            i = j + 1; continue
        out.append(toks[i]); i += 1
    return out

def _canon(toks):
    """drop the N6 return-name wrapper `-> ( r : T )` by removing a '(' IDENT ':' right after '->'
    and its matching ')'."""
    out = list(toks)
    for i in range(len(out) - 4):
        if out[i] == "-" and out[i + 1] == ">" and out[i + 2] == "(" and out[i + 4] == ":" and re.match(r"[a-z_]\w*$", out[i + 3] or ""):
            # matching close
            depth, j = 0, i + 2
            while j < len(out):
                if out[j] in ("(", "[", "{"): depth += 1
                elif out[j] in (")", "]", "}"):
                    depth -= 1
                    if depth == 0: break
                j += 1
            del out[j]
            del out[i + 2:i + 5]
            break
    return out
