#!/usr/bin/env python3
"""regenerate vx/fn_baseline.json: hash of the source tokens of every extracted function on /repo's committed tree.
Used only to tell 'the text of this function changed' from 'it did not' (cross-check rule, DESIGN 10.8)."""
import sys, os, json, subprocess
sys.path.insert(0, os.path.dirname(os.path.abspath(__file__)))
import emit, runner, driver
sdir, copy = runner.make_scratch("baseline")
out = {}
for u, U in driver.UNITS.items():
    if u == "canary": continue
    for pkg, rel in U.get("expand", []):
        runner.expand_crate(copy, pkg, rel)
    e = emit.Emitter(copy, runner.VERIF); e.process(U["template"])
    for r in e.records:
        out["%s/%s" % (u, r.qname)] = r.src_hash
json.dump(out, open(os.path.join(runner.VERIF, "vx", "fn_baseline.json"), "w"), indent=1, sort_keys=True)
print("fn_baseline.json: %d functions" % len(out))
