"""./check --selftest [seed_dir prefix ...] : run every seeded change (on its own scratch copy of /repo, SEED_JOBS at a
time; /repo itself is never touched) through its property's check and compare with the verdict recorded in meta.json
(violation / undecided / missed); behaviour-preserving refactors (meta "benign") must not produce a VIOLATION anywhere.
Exit 0 iff all match."""
import os, sys, json
import concurrent.futures as cf
import seedtool
def main(argv):
    root = os.path.join(seedtool.VERIF, "seeded")
    dirs = sorted(d for d in os.listdir(root) if os.path.exists(os.path.join(root, d, "meta.json")))
    if argv:
        dirs = [d for d in dirs if any(d.startswith(a) for a in argv)]
    bad = 0
    with cf.ThreadPoolExecutor(int(os.environ.get("SEED_JOBS", "3"))) as ex:
        for sd, res in zip(dirs, ex.map(seedtool.prun, dirs)):
            meta = json.load(open(os.path.join(root, sd, "meta.json")))
            if meta.get("benign"):
                alarms = [p for p, r in res.items() if isinstance(r, dict) and r.get("exit") == 1]
                bad += 1 if alarms else 0
                print("%-12s benign  %s" % (sd, "FALSE ALARM in " + ",".join(alarms) if alarms else "no alarm " + str({p: r.get("exit") for p, r in res.items() if isinstance(r, dict)})))
            else:
                r = res.get(meta["property"], {}) if isinstance(res, dict) else {}
                got = {1: "violation", 2: "undecided", 0: "missed"}.get(r.get("exit"), "error")
                want = meta.get("expected_verdict_of_property_check", "violation")
                ok = got == want
                bad += 0 if ok else 1
                print("%-12s %-4s expected=%-9s got=%-9s %s  (%.0fs)" % (sd, meta["property"], want, got, "ok" if ok else "MISMATCH", r.get("wall_s", 0)))
            sys.stdout.flush()
    print("selftest: %d seeded changes, %d mismatches" % (len(dirs), bad))
    return 0 if bad == 0 else 2
