"""./check --selftest [seed_dir ...] : apply every seeded change, run its property's check, compare with
the verdict recorded in meta.json (violation / undecided / missed).  Exit 0 iff all match."""
import os, sys, json
import seedtool
def main(argv):
    root = os.path.join(seedtool.VERIF, "seeded")
    dirs = argv or sorted(d for d in os.listdir(root) if os.path.exists(os.path.join(root, d, "meta.json")))
    bad = 0
    for sd in dirs:
        meta = json.load(open(os.path.join(root, sd, "meta.json")))
        if meta.get("benign"):
            # behaviour-preserving refactor: no check may report a violation (exit 2 = undecided is acceptable)
            res = seedtool.prun(sd)
            alarms = [p for p, r in res.items() if isinstance(r, dict) and r.get("exit") == 1]
            bad += 1 if alarms else 0
            print("%-12s benign  %s" % (sd, "FALSE ALARM in " + ",".join(alarms) if alarms else "no alarm " + str({p: r.get("exit") for p, r in res.items()})))
            sys.stdout.flush()
            continue
        res = seedtool.run(sd)
        r = res.get(meta["property"], {})
        got = {1: "violation", 2: "undecided", 0: "missed"}.get(r.get("exit"), "error")
        want = meta.get("expected_verdict_of_property_check", "violation")
        ok = got == want
        bad += 0 if ok else 1
        print("%-8s %-4s expected=%-9s got=%-9s %s  (%.0fs)" % (sd, meta["property"], want, got, "ok" if ok else "MISMATCH", r.get("wall_s", 0)))
        sys.stdout.flush()
    print("selftest: %d seeded changes, %d mismatches" % (len(dirs), bad))
    return 0 if bad == 0 else 2
