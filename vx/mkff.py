import re,sys
W=2**64
t=open('/verif/vx/ff_template.txt').read()
for n in range(1,6):
    t=t.replace("@W%d@"%n, str(W**n)+"int")
t=t.replace("@P@", str(2**128+12451)+"int")
open('/verif/units/ff.vt','w').write(t)
print("ok", len(t))
