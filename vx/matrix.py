#!/usr/bin/env python3
"""matrix.py <pall log>... : summarise seedtool pall logs as a markdown table and update expected verdicts in meta.json"""
import sys, json, os, re
V = os.path.dirname(os.path.dirname(os.path.abspath(__file__)))
rows = {}
for f in sys.argv[1:]:
    for ln in open(f):
        k, _, r = ln.partition(" ")
        try: d = json.loads(r)
        except ValueError: continue
        rows[k] = d
print("| change | property check(s) | verdict | deciding obligation / reason |")
print("|---|---|---|---|")
for k in sorted(rows):
    d = rows[k]
    if not isinstance(d, dict) or "error" in d:
        print("| %s | - | error | %s |" % (k, str(d)[:80])); continue
    mp = os.path.join(V, "seeded", k, "meta.json")
    meta = json.load(open(mp)) if os.path.exists(mp) else {}
    verd, why = [], []
    for p, v in d.items():
        ex = v.get("exit")
        verd.append("%s:%s" % (p, {0: "ok", 1: "VIOLATION", 2: "undecided"}.get(ex, "?")))
        for l in v.get("lines", []):
            m = re.search(r"obligation=(\S+)", l)
            if m: why.append(m.group(1))
            elif l.startswith("  - "): why.append(l[4:100])
    if meta.get("benign"):
        overall = "FALSE ALARM" if any(v.get("exit") == 1 for v in d.values()) else "no alarm"
    else:
        ex = d.get(meta.get("property"), {}).get("exit")
        overall = {0: "missed", 1: "violation", 2: "undecided"}.get(ex, "?")
        if "--update" in os.environ.get("MATRIX_FLAGS", "") and overall in ("missed", "violation", "undecided"):
            meta["expected_verdict_of_property_check"] = overall
            json.dump(meta, open(mp, "w"), indent=1)
    print("| %s | %s | %s | %s |" % (k, " ".join(verd), overall, "; ".join(dict.fromkeys(why))[:160]))
