"""E2: Kani harnesses on the real crates (scratch copy with injected #[cfg(kani)] modules)."""
import os, re, subprocess, time, json
from runner import VERIF, ToolError, offline_env

def run_harnesses(repo_copy, workdir, harnesses, tier):
    raise ToolError("kani runner not built yet")
