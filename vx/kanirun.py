"""E2: Kani harnesses on the real crates (scratch copy with injected #[cfg(kani)] modules)."""
import os, re, subprocess, time, json, signal
from runner import VERIF, CACHE, ToolError, offline_env

# file in the scratch copy  ->  harness module appended under cfg(kani)
INJECT = {
    "star-sharks": [("sharks/src/share_ff.rs", "kani/sharks_ff.rs", "verif_kani"),
                    ("sharks/src/lib.rs", "kani/sharks_lib.rs", "verif_kani_lib")],
    "adss": [("adss/src/lib.rs", "kani/adss.rs", "verif_kani")],
    "sta-rs": [("star/src/lib.rs", "kani/star.rs", "verif_kani")],
    "ppoprf": [("ppoprf/src/ppoprf.rs", "kani/ppoprf.rs", "verif_kani")],
}
# crate-level attributes some harness modules need (prepended to the crate root in the scratch copy)
PREPEND = {
    "star-sharks": ("sharks/src/lib.rs", "#![cfg_attr(kani, feature(allocator_api))]\n"),
    "sta-rs": ("star/src/lib.rs", "#![cfg_attr(kani, recursion_limit = \"512\")]\n"),
}
_injected = set()

def inject(repo_copy, package):
    key = (repo_copy, package)
    if key in _injected:
        return
    for rel, mod, name in INJECT.get(package, []):
        src = os.path.join(VERIF, mod)
        if not os.path.exists(src):
            continue
        p = os.path.join(repo_copy, rel)
        if not os.path.exists(p):
            raise ToolError("lost anchor: %s does not exist" % rel)
        with open(p, "a") as f:
            f.write('\n#[cfg(kani)] #[path = "%s"] mod %s;\n' % (src, name))
    if package in PREPEND:
        rel, text = PREPEND[package]
        p = os.path.join(repo_copy, rel)
        src = open(p).read()
        # crate attributes must come first: put ours before everything (inner doc comments are fine after)
        open(p, "w").write(text + src)
    _injected.add(key)

def _run(cmd, cwd, timeout, mem_gb=24):
    t0 = time.time()
    env = offline_env({"CARGO_TARGET_DIR": os.path.join(CACHE, "ktarget")})
    # address-space limit so a blow-up cannot take the box down (no swap here)
    pre = "ulimit -v %d; exec " % (mem_gb * 1024 * 1024)
    p = subprocess.Popen(["bash", "-c", pre + " ".join("'%s'" % c for c in cmd)], cwd=cwd, env=env,
                         stdout=subprocess.PIPE, stderr=subprocess.STDOUT, text=True, start_new_session=True)
    try:
        out, _ = p.communicate(timeout=timeout)
        to = False
    except subprocess.TimeoutExpired:
        os.killpg(p.pid, signal.SIGKILL)
        out, _ = p.communicate()
        to = True
    return out, time.time() - t0, to, p.returncode

def parse(out):
    """-> {harness_short_name: {status, time, failed_checks}}"""
    res = {}
    cur = {}   # thread -> harness
    buf = {}   # thread -> lines
    single = None
    for ln in out.splitlines():
        m = re.match(r"(?:Thread (\d+): )?Checking harness ([\w:]+)\.\.\.", ln)
        if m:
            th = m.group(1) or "0"
            cur[th] = m.group(2).split("::")[-1]; buf[th] = []
            single = th
            continue
        m = re.match(r"Thread (\d+): ?(.*)", ln)
        if m:
            single = m.group(1)
            ln = m.group(2)
        if single is not None and single in cur:
            buf[single].append(ln)
            m2 = re.match(r"VERIFICATION:- (\w+)", ln)
            if m2:
                h = cur[single]
                res.setdefault(h, {})["status"] = m2.group(1)
                res[h]["failed_checks"] = "\n".join(l for l in buf[single] if l.startswith("Failed Checks") or l.strip().startswith("File:"))
                res[h]["stubs"] = [l.strip() for l in buf[single] if l.strip().startswith("- Stub:")]
            m3 = re.match(r"Verification Time: ([\d.]+)s", ln)
            if m3:
                res.setdefault(cur[single], {})["time"] = float(m3.group(1))
    return res

def run_harnesses(repo_copy, workdir, harnesses, tier):
    """harnesses: list of dicts(package, harness, about, complete, bound, flags, timeout, expect_fail).
    returns [(h, {status: SUCCESSFUL|FAILED|TIMEOUT|ERROR, wall_s, ...})]"""
    groups = {}
    for h in harnesses:
        groups.setdefault((h["package"], tuple(h.get("flags", []))), []).append(h)
    results = []
    for (pkg, flags) in groups:
        inject(repo_copy, pkg)
    # one cargo-kani process per (package, flags) group, groups in parallel (the build steps serialise on
    # cargo's target-dir lock; the CBMC runs overlap)
    import threading
    lock = threading.Lock()
    errors = []
    def work(pkg, flags, hs):
        try:
            res = _run_group(repo_copy, pkg, flags, hs)
            with lock:
                results.extend(res)
        except ToolError as e:
            with lock:
                errors.append(e)
    th = [threading.Thread(target=work, args=(pkg, flags, hs)) for (pkg, flags), hs in groups.items()]
    for t in th: t.start()
    for t in th: t.join()
    if errors:
        raise errors[0]
    # E3: replay every counterexample natively against the real code (sequentially: it edits the scratch copy)
    for h, r in results:
        pb = r.get("playback")
        if r.get("status") == "FAILED" and pb and pb.get("test_src") and not h.get("expect_fail") and r.get("stubs"):
            pb.pop("test_src")
            pb["native_replay"] = {"ran": False, "why": "the harness relies on #[kani::stub]s (%d, listed in the evidence); native playback does not apply stubs and would run different code, so only the counterexample values are recorded" % len(r["stubs"])}
        elif r.get("status") == "FAILED" and pb and pb.get("test_src") and not h.get("expect_fail"):
            try:
                pb["native_replay"] = native_replay(repo_copy, h["package"], h, pb.pop("test_src"))
            except Exception as e:      # replay is best effort; the Kani verdict stands
                pb["native_replay"] = {"ran": False, "why": str(e)[:300]}
        elif pb:
            pb.pop("test_src", None)
    return results

def native_replay(repo_copy, pkg, h, test_src):
    """Run Kani's concrete-playback unit test as a NATIVE test (`cargo kani playback`): the harness body
    executes on the real code with the counterexample's values.  #[kani::stub]s are not applied natively,
    so a counterexample that depends on a stub (recorded arguments, abstracted primitive) may not reproduce;
    that is reported as such."""
    name = "verif_playback_" + h["harness"]
    test_src = re.sub(r"fn kani_concrete_playback_\w+\(\)", "fn %s()" % name, test_src, count=1)
    done = False
    for rel, mod, modname in INJECT.get(pkg, []):
        src = os.path.join(VERIF, mod)
        if not os.path.exists(src) or not re.search(r"\b%s\b" % re.escape(h["harness"]), open(src).read()):
            continue
        dst = os.path.join(repo_copy, "verif_playback_" + os.path.basename(mod))
        open(dst, "w").write(open(src).read() + "\n" + test_src + "\n")
        p = os.path.join(repo_copy, rel)
        txt = open(p).read()
        if ('#[path = "%s"]' % src) not in txt:
            continue
        open(p, "w").write(txt.replace('#[path = "%s"]' % src, '#[path = "%s"]' % dst))
        done = True
        break
    if not done:
        return {"ran": False, "why": "harness module not found"}
    cmd = ["cargo", "kani", "playback", "-Z", "concrete-playback", "-p", pkg, "--", name, "--nocapture"]
    out, wall, to, rc = _run(cmd, repo_copy, 900)
    # undo the re-pointing so later runs in this scratch copy see the committed harness file
    open(p, "w").write(txt)
    m = re.search(r"panicked at ([^\n]*)\n([^\n]*)", out)
    ran = "test result:" in out
    failed = bool(re.search(r"test result: FAILED", out)) or (ran and bool(m) and "1 failed" in out)
    return {"ran": ran, "cmd": " ".join(cmd), "reproduced_on_real_code": failed if ran else None,
            "panic": (m.group(1) + ": " + m.group(2))[:400] if m else None,
            "note": None if failed or not ran else "the harness passes natively: the counterexample depends on a #[kani::stub] (stubs are not applied in native playback)",
            "wall_s": round(wall, 1), "tail": out[-600:] if not ran else ""}

def _run_group(repo_copy, pkg, flags, hs):
    results = []
    if True:
        cmd = ["cargo", "kani", "-p", pkg, "--output-format=terse", "-j", str(min(8, max(1, len(hs))))] + list(flags)
        for h in hs:
            cmd += ["--harness", h["harness"]]
        tmo = max(h.get("timeout", 300) for h in hs) + 120
        out, wall, to, rc = _run(cmd, repo_copy, tmo)
        parsed = parse(out)
        if not parsed and not to:
            # build failure: the changed tree does not compile under Kani, or the harness is stale
            raise ToolError("cargo kani produced no verdict for %s:\n%s" % (pkg, out[-2500:]))
        for h in hs:
            r = parsed.get(h["harness"])
            if r is None or "status" not in r:
                results.append((h, {"status": "TIMEOUT" if to else "ERROR", "wall_s": wall, "tail": out[-1500:]}))
                continue
            st = "SUCCESSFUL" if r["status"] == "SUCCESSFUL" else "FAILED"
            fc = [l for l in r.get("failed_checks", "").splitlines() if l.startswith("Failed Checks")]
            if st == "FAILED" and not fc:
                # "VERIFICATION:- FAILED" without a failed check is CBMC itself failing (out of memory,
                # crash): inconclusive, never a violation
                results.append((h, {"status": "ERROR(cbmc failed without a failed check: out of memory / crash)", "wall_s": r.get("time", wall),
                                    "failed_checks": "", "stubs": r.get("stubs", []), "tail": out[-800:]}))
                continue
            if st == "FAILED" and fc and all("unwinding assertion" in l for l in fc) and not h.get("expect_fail"):
                cmd2 = ["cargo", "kani", "-p", pkg, "--output-format=terse", "--harness", h["harness"], "--unwind", "30"] + list(flags)
                out2, wall2, to2, rc2 = _run(cmd2, repo_copy, h.get("timeout", 300) + 120)
                r2 = parse(out2).get(h["harness"], {})
                fc2 = [l for l in r2.get("failed_checks", "").splitlines() if l.startswith("Failed Checks")]
                if r2.get("status") == "SUCCESSFUL":
                    r = r2; st = "SUCCESSFUL"
                elif r2.get("status") and fc2 and not all("unwinding assertion" in l for l in fc2):
                    r = r2; st = "FAILED"
                else:
                    results.append((h, {"status": "INCONCLUSIVE(unwinding bound)" if not to2 else "TIMEOUT", "wall_s": wall + wall2,
                                        "failed_checks": r.get("failed_checks", ""), "stubs": r.get("stubs", []), "tail": ""}))
                    continue
            elif st == "FAILED" and fc and not h.get("expect_fail"):
                # genuine assertion failures count; unwinding failures listed next to them are ignored
                pass
            ent = {"status": st, "wall_s": r.get("time", 0.0), "failed_checks": r.get("failed_checks", ""),
                   "stubs": r.get("stubs", []), "tail": ""}
            if st == "FAILED" and not h.get("expect_fail"):
                ent["playback"] = playback(repo_copy, pkg, flags, h)
                ent["tail"] = r.get("failed_checks", "")
            results.append((h, ent))
    return results

def playback(repo_copy, pkg, flags, h):
    """re-run one failed harness with concrete playback to obtain the values of every kani::any()"""
    cmd = ["cargo", "kani", "-p", pkg, "--harness", h["harness"], "-Z", "concrete-playback",
           "--concrete-playback=print"] + list(flags)
    out, wall, to, rc = _run(cmd, repo_copy, h.get("timeout", 300) + 120)
    tm = re.search(r"```\n(.*?#\[test\].*?)\n```", out, flags=re.S)
    vals = []
    for m in re.finditer(r"vec!\[([0-9, ]*)\]", out):
        vals.append([int(x) for x in m.group(1).split(",") if x.strip()])
    if not vals:
        return None
    d = {"harness": h["harness"],
         "note": "values of every kani::any() of the harness, in call order, little-endian bytes per value"}
    if tm:
        d["test_src"] = tm.group(1)
    if all(len(v) == 1 for v in vals):
        d["kani_any_bytes_in_order"] = [v[0] for v in vals]
    else:
        d["kani_any_values_in_order"] = vals
    return d
