"""Scratch copy, dependency build, Verus invocation and result parsing."""
import os, sys, json, subprocess, shutil, tempfile, atexit, time, glob, hashlib, re

VERIF = os.path.dirname(os.path.dirname(os.path.abspath(__file__)))
REPO = os.environ.get("VERIF_REPO", "/repo")
VERUS_TOOLCHAIN = "1.98.1-x86_64-unknown-linux-gnu"
CACHE = os.environ.get("VERIF_CACHE") or os.path.join(VERIF, ".cache")

class ToolError(Exception):
    """undecided: tooling problem, exit 2"""

_scratch = []
def _cleanup():
    for d in _scratch:
        shutil.rmtree(d, ignore_errors=True)
atexit.register(_cleanup)

def make_scratch(tag="s"):
    base = os.environ.get("VERIF_SCRATCH_BASE", "/var/tmp")
    os.makedirs(base, exist_ok=True)
    d = tempfile.mkdtemp(prefix="verif-%s-" % tag, dir=base)
    _scratch.append(d)
    dst = os.path.join(d, "repo")
    # copy working tree (not .git, not target)
    subprocess.run(["rsync", "-a", "--exclude", "/target", "--exclude", "/.git", "--exclude", "target/",
                    REPO + "/", dst + "/"], check=True)
    # cargo decides freshness by mtime: make every source of the copy newer than anything in the shared target dirs
    # (rsync -a preserved the original mtimes), so workspace crates are always rebuilt from THIS copy's text
    now = time.time()
    for root, dirs, files in os.walk(dst):
        if "/target" in root:
            continue
        for f in files:
            if f.endswith((".rs", ".toml")):
                try: os.utime(os.path.join(root, f), (now, now))
                except OSError: pass
    return d, dst

def offline_env(extra=None):
    env = dict(os.environ)
    env.update({"CARGO_NET_OFFLINE": "true", "CARGO_TERM_COLOR": "never"})
    if extra:
        env.update(extra)
    return env

def build_deps(repo_copy, packages, target_dir=None, features=None):
    """cargo build (Verus' toolchain) of the named workspace packages in the scratch copy;
    returns {crate_name: rlib_path} for every artifact, so Verus links against the real
    dependency types.  Third-party artifacts are cached in target_dir across runs."""
    target_dir = target_dir or os.path.join(CACHE, "vtarget")
    os.makedirs(target_dir, exist_ok=True)
    cmd = ["cargo", "+" + VERUS_TOOLCHAIN, "build", "--offline", "--message-format=json"]
    for p in packages:
        cmd += ["-p", p]
    if features:
        cmd += ["--features", features]
    t0 = time.time()
    r = subprocess.run(cmd, cwd=repo_copy, env=offline_env({"CARGO_TARGET_DIR": target_dir}),
                       stdout=subprocess.PIPE, stderr=subprocess.PIPE, text=True)
    if r.returncode != 0:
        raise ToolError("cargo build of %s failed (the changed tree does not compile with toolchain %s):\n%s"
                        % (packages, VERUS_TOOLCHAIN, r.stderr[-3000:]))
    arts = {}
    for ln in r.stdout.splitlines():
        if not ln.startswith("{"):
            continue
        try:
            m = json.loads(ln)
        except ValueError:
            continue
        if m.get("reason") != "compiler-artifact":
            continue
        name = m["target"]["name"].replace("-", "_")
        kinds = m["target"].get("kind", [])
        if "lib" not in kinds and "rlib" not in kinds and "proc-macro" not in kinds and "cdylib" not in kinds:
            continue
        for f in m.get("filenames", []):
            if f.endswith(".rlib") or (f.endswith(".so") and "proc-macro" in kinds):
                arts[name] = f
    return arts, os.path.join(target_dir, "debug", "deps"), time.time() - t0

def expand_crate(repo_copy, package, rel_out):
    """macro-expanded source of a workspace crate (the text rustc compiles after #[derive(PrimeField)] etc.),
    regenerated from the scratch copy on every run: `cargo +nightly rustc -p <pkg> --lib -- -Zunpretty=expanded`"""
    out = os.path.join(repo_copy, rel_out)
    if os.path.exists(out):
        return out
    os.makedirs(os.path.dirname(out), exist_ok=True)
    cmd = ["cargo", "+nightly", "rustc", "-p", package, "--lib", "--offline", "--", "-Zunpretty=expanded"]
    r = subprocess.run(cmd, cwd=repo_copy, env=offline_env({"CARGO_TARGET_DIR": os.path.join(CACHE, "xtarget")}),
                       stdout=subprocess.PIPE, stderr=subprocess.PIPE, text=True, timeout=1200)
    if r.returncode != 0 or "mod share_ff" not in r.stdout:
        raise ToolError("macro expansion of %s failed:\n%s" % (package, r.stderr[-2000:]))
    open(out, "w").write(r.stdout)
    return out

def run_verus(rs_path, externs, deps_dir, extra=None, timeout=900):
    cmd = ["verus", rs_path, "--output-json", "--time", "--error-format=json", "--multiple-errors", "50",
           "-L", "dependency=" + deps_dir]
    for name, path in externs.items():
        cmd += ["--extern", "%s=%s" % (name, path)]
    if extra:
        cmd += extra
    t0 = time.time()
    try:
        r = subprocess.run(cmd, cwd=os.path.dirname(rs_path), stdout=subprocess.PIPE, stderr=subprocess.PIPE,
                           text=True, timeout=timeout, env=offline_env())
    except subprocess.TimeoutExpired:
        raise ToolError("verus timed out after %ds on %s" % (timeout, rs_path))
    wall = time.time() - t0
    try:
        out = json.loads(r.stdout) if r.stdout.strip() else {}
    except ValueError:
        out = {}
    diags = []
    for ln in r.stderr.splitlines():
        if ln.startswith("{"):
            try:
                diags.append(json.loads(ln))
            except ValueError:
                pass
    return {"rc": r.returncode, "json": out, "diags": diags, "stderr": r.stderr, "wall_s": wall, "cmd": cmd}

SEMANTIC = [
    ("postcondition not satisfied", "postcondition"),
    ("unable to prove post-condition of closure", "postcondition"),
    ("unable to prove pre-condition of closure", "precondition"),
    ("precondition not satisfied", "precondition"),
    ("assertion failed", "assertion"),
    ("invariant not satisfied", "invariant"),
    ("possible arithmetic underflow/overflow", "overflow"),
    ("possible division by zero", "div0"),
    ("index out of bounds", "index"),
    ("decreases not satisfied", "decreases"),
    ("loop invariant", "invariant"),
    ("possible bit shift underflow/overflow", "overflow"),
    ("recommendation not met", None),  # never reported
]

def classify_diag(d):
    """-> ('semantic', kind) | ('tool', msg) | ('note', None)"""
    if d.get("level") not in ("error",):
        return ("note", None)
    msg = d.get("message", "")
    if msg.startswith("aborting due to"):
        return ("note", None)
    for pat, kind in SEMANTIC:
        if pat in msg:
            return ("semantic", kind) if kind else ("note", None)
    if "rlimit" in msg.lower() or "resource limit" in msg.lower() or "timed out" in msg.lower():
        return ("tool", "rlimit")
    return ("tool", msg)

def function_breakdown(vjson):
    res = {}
    try:
        mods = vjson["times-ms"]["smt"]["smt-run-module-times"]
    except (KeyError, TypeError):
        return res
    for m in mods:
        for f in m.get("function-breakdown", []):
            res[f["function"]] = {"mode": f.get("mode:") or f.get("mode"), "time_us": f.get("time-micros", 0),
                                  "rlimit": f.get("rlimit", 0), "success": f.get("success")}
    return res
