#!/usr/bin/env python3
"""gen.py <template> <repo> <out.rs>  - emit one unit (debug helper)"""
import sys, os
sys.path.insert(0, os.path.dirname(os.path.abspath(__file__)))
import emit
e = emit.Emitter(sys.argv[2], "/verif")
t = e.process(sys.argv[1])
open(sys.argv[3], "w").write(t)
for p in emit.check_faithful(e, t): print("UNFAITHFUL", p)
for r in e.records: print(r.qname, r.out_first, r.out_last, r.mode, r.rewrites)
