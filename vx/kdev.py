#!/usr/bin/env python3
"""kdev.py <package> <timeout_s> <harness> [<harness>...] [-- extra flags]  : run Kani harnesses (developer helper)"""
import sys, os, json, subprocess
sys.path.insert(0, os.path.dirname(os.path.abspath(__file__)))
import runner, kanirun
pkg, tmo = sys.argv[1], int(sys.argv[2])
rest = sys.argv[3:]
flags = []
if "--" in rest:
    i = rest.index("--"); flags = rest[i + 1:]; rest = rest[:i]
repo = os.environ.get("KDEV_REPO", "/repo")
runner.REPO = repo
sdir, copy = runner.make_scratch("kdev")
hs = [{"package": pkg, "harness": h, "about": h, "timeout": tmo, "flags": flags} for h in rest]
for h, r in kanirun.run_harnesses(copy, sdir, hs, "quick"):
    print(h["harness"], r["status"], "%.1fs" % r["wall_s"], (r.get("failed_checks") or "")[:600].replace("\n", " | "), r.get("stubs"))
    if r.get("playback"): print("  playback:", json.dumps(r["playback"])[:600])
    if r["status"] in ("ERROR",): print(r.get("tail", "")[-1500:])
