"""check driver: property -> units/harnesses -> verdict, evidence, replay files."""
import os, sys, json, time, re, hashlib, subprocess, shutil
import emit, runner, kanirun
from runner import VERIF, REPO, ToolError

UNITS = {
    "sta": {"template": "units/sta.vt", "packages": ["adss", "sta-rs"],
            "externs": {"strobe_rs": "strobe_rs", "real_sharks": "star_sharks", "ff": "ff", "subtle": "subtle",
                        "rand": "rand", "rand_core": "rand_core", "zeroize": "zeroize"}},
    "ppo": {"template": "units/ppo.vt", "packages": ["ppoprf"],
            "externs": {"strobe_rs": "strobe_rs", "curve25519_dalek": "curve25519_dalek", "rand": "rand",
                        "rand_core": "rand_core", "serde": "serde", "bincode": "bincode", "zeroize": "zeroize"}},
    # Montgomery multiplication of the share field, on the macro-expanded text of star-sharks
    "ff": {"template": "units/ff.vt", "packages": ["star-sharks"], "externs": {"ff": "ff"},
           "expand": [("star-sharks", "_expanded/star_sharks.rs")]},
    "canary": {"template": "units/canary.vt", "packages": [], "externs": {}},
}

def load_fn_baseline():
    p = os.path.join(VERIF, "vx", "fn_baseline.json")
    return json.load(open(p)) if os.path.exists(p) else {}

def load_props():
    return json.load(open(os.path.join(VERIF, "vx", "props.json")))

# ----------------------------------------------------------------------
class UnitResult:
    def __init__(self, unit):
        self.unit = unit
        self.records = []          # emit.FnRecord
        self.failures = []         # dict(fn, kind, safety, text, rendered, src, line)
        self.tool_errors = []      # strings -> undecided
        self.tool_culprits = []    # qnames of extracted functions a tool error points into
        self.demoted = {}          # qname -> reason
        self.lemmas = {}           # name -> success
        self.times = {}
        self.assumptions = []
        self.verified = 0; self.errors = 0
        self.wall = 0.0; self.cmd = ""
        self.rewrites = {}
        self.cuts = []

# closures that have no ghost header on the unchanged tree (their results are not needed by any proof):
# a function with MORE unannotated closures than this after a change contains a new closure whose result
# Verus knows nothing about, so a failed proof there is undecided, not a violation
BASE_UNANNOTATED = json.load(open(os.path.join(VERIF, "vx", "closures_baseline.json"))) if os.path.exists(os.path.join(VERIF, "vx", "closures_baseline.json")) else {}

SAFETY_KINDS = {"overflow", "index", "div0"}

def scan_assumptions(text):
    """mechanical scan of the generated text for everything that is assumed, not proved"""
    out = []
    lines = text.split("\n")
    for i, ln in enumerate(lines):
        s = ln.strip()
        k0 = s.find("assume_specification")
        if k0 >= 0 and not s.startswith("//"):
            k1 = s.find("[", k0)
            # skip generic parameter list <...> (may itself contain brackets)
            if k1 >= 0:
                depth, k2 = 0, k1
                while k2 < len(s):
                    if s[k2] == "[": depth += 1
                    elif s[k2] == "]":
                        depth -= 1
                        if depth == 0: break
                    k2 += 1
                # the generic list may precede: `assume_specification<T, const N: usize>[path]`
                g0 = s.find("<", k0)
                if 0 <= g0 < k1:
                    d, q = 0, g0
                    while q < len(s):
                        if s[q] == "<": d += 1
                        elif s[q] == ">":
                            d -= 1
                            if d == 0: break
                        q += 1
                    k1 = s.find("[", q)
                    depth, k2 = 0, k1
                    while k2 < len(s):
                        if s[k2] == "[": depth += 1
                        elif s[k2] == "]":
                            depth -= 1
                            if depth == 0: break
                        k2 += 1
                out.append("assume_specification " + re.sub(r"\s+", " ", s[k1 + 1:k2])); continue
        m = re.match(r"pub (broadcast )?axiom fn (\w+)", s)
        if m:
            out.append("axiom " + m.group(2)); continue
        if s.startswith("#[verifier::external_body]"):
            # name of next fn / struct
            for k in range(i + 1, min(i + 6, len(lines))):
                m2 = re.search(r"\b(fn|struct)\s+(\w+)", lines[k])
                if m2:
                    out.append("external_body %s %s" % (m2.group(1), m2.group(2))); break
            continue
        if re.search(r"\b(assume|admit)\s*\(", s) and not s.startswith("//"):
            out.append("assume/admit at generated line %d: %s" % (i + 1, s[:80]))
        m = re.match(r"pub uninterp spec fn (\w+)", s)
        if m:
            out.append("uninterpreted " + m.group(1))
    seen, res = set(), []
    for a in out:
        if a not in seen:
            seen.add(a); res.append(a)
    return res

def verify_unit_once(unit, repo_copy, workdir, extra=None, demote=None):
    U = UNITS[unit]
    R = UnitResult(unit)
    arts, deps = {}, os.path.join(runner.CACHE, "vtarget", "debug", "deps")
    if U["packages"]:
        arts, deps, bt = runner.build_deps(repo_copy, U["packages"])
        R.times["cargo_build_s"] = round(bt, 2)
    for pkg, rel in U.get("expand", []):
        t0 = time.time()
        runner.expand_crate(repo_copy, pkg, rel)
        R.times["macro_expansion_s"] = round(time.time() - t0, 2)
    E = emit.Emitter(repo_copy, VERIF, demote=demote)
    text = E.process(U["template"])       # may raise EmitError
    R.emitter = E
    out = os.path.join(workdir, "vunit_%s.rs" % unit)
    open(out, "w").write(text)
    R.records = E.records
    R.assumptions = scan_assumptions(text)
    for rec in E.records:
        for k, v in rec.rewrites.items():
            R.rewrites[k] = R.rewrites.get(k, 0) + v
        if rec.cut:
            R.cuts.append("%s: first %d statements cut (%s)" % (rec.qname, rec.cut, re.sub(r"\s+", " ", rec.cut_text)[:200]))
    bad = emit.check_faithful(E, text)
    if bad:
        R.tool_errors += ["extractor self-check failed: " + b for b in bad]
        return R
    ext = {}
    for k, v in U["externs"].items():
        if v not in arts:
            R.tool_errors.append("dependency artifact %s not built" % v); return R
        ext[k] = arts[v]
    vr = runner.run_verus(out, ext, deps, extra=extra)
    R.wall = vr["wall_s"]; R.cmd = " ".join(vr["cmd"][:6]) + " ..."
    vres = (vr["json"] or {}).get("verification-results") or {}
    R.verified = vres.get("verified", 0); R.errors = vres.get("errors", 0)
    fb = runner.function_breakdown(vr["json"])
    R.breakdown = fb
    lines = text.split("\n")
    fname = os.path.basename(out)
    if not vr["json"]:
        R.tool_errors.append("verus produced no result: " + vr["stderr"][-1500:])
        return R
    for d in vr["diags"]:
        cls, kind = runner.classify_diag(d)
        if cls == "note":
            continue
        spans = [s for s in d.get("spans", []) if s.get("file_name", "").endswith(fname)]
        if cls == "tool":
            where = ""
            culprit = None
            if spans:
                # the primary span is where rustc/Verus points; secondary spans (e.g. the struct a missing
                # trait bound refers to) come first in some diagnostics
                ordered = sorted(spans, key=lambda sp: not sp.get("is_primary"))
                ln = ordered[0]["line_start"]; src = E.line_src.get(ln)
                where = " [%s:%d]" % src if src else " [generated line %d]" % ln
                for sp in ordered:
                    for r in E.records:
                        if r.out_first <= sp["line_start"] <= r.out_last:
                            culprit = r.qname; break
                    if culprit: break
            R.tool_errors.append("verus: %s%s" % (d.get("message", "")[:400], where))
            if culprit:
                R.tool_culprits.append(culprit)
            continue
        # semantic failure: locate function
        rec, primary = None, None
        for s in sorted(spans, key=lambda s: not s.get("is_primary")):
            for r in E.records:
                if r.out_first <= s["line_start"] <= r.out_last:
                    rec, primary = r, s; break
            if rec: break
        if rec is None:
            # failure inside /verif-owned text (lemma, theory): find enclosing proof fn name
            name = None
            if spans:
                for k in range(spans[0]["line_start"] - 1, -1, -1):
                    m = re.search(r"\bfn\s+(\w+)", lines[k])
                    if m:
                        name = m.group(1); break
            R.failures.append({"fn": None, "lemma": name, "kind": kind, "text": d.get("message"),
                               "rendered": d.get("rendered", ""), "props": [], "obligation": "%s/lemma:%s/%s" % (unit, name, kind)})
            continue
        # the text of the failed clause / expression
        clause = ""
        for s in spans:
            if s.get("is_primary"):
                clause = " ".join(t["text"].strip() for t in s.get("text", []))[:300]
                break
        # is the callee of a failed precondition a std/vstd function? (then it is a panic-freedom obligation)
        foreign = [s for s in d.get("spans", []) if not s.get("file_name", "").endswith(fname)]
        safety = kind in SAFETY_KINDS
        if kind == "precondition":
            inside_theory = False
            for s in spans:
                if not s.get("is_primary"):
                    # secondary span = the requires clause; in our file but outside every extracted fn => theory (std wrapper)
                    if not any(r.out_first <= s["line_start"] <= r.out_last for r in E.records):
                        inside_theory = True
            safety = bool(foreign) or inside_theory
        in_ghost = False
        if primary is not None:
            for (a, b, gk) in rec.ghost_ranges:
                if a <= primary["line_start"] <= b and gk != "ghost:spec" and not gk.startswith("ghost:loop"):
                    in_ghost = True
        src = E.line_src.get(primary["line_start"]) if primary else None
        sp = rec.safety.split() if isinstance(rec.safety, str) else (rec.safety or [])
        props = sp if (safety and sp) else list(rec.props)
        R.failures.append({
            "fn": rec.qname, "file": rec.file, "kind": ("panic-freedom:" + kind) if safety else kind,
            "proof_hint": in_ghost, "text": d.get("message"), "clause": clause,
            "rendered": d.get("rendered", ""), "props": props, "src": "%s:%d" % src if src else None,
            "obligation": "%s/%s/%s/%s" % (unit, rec.qname, ("panic-freedom:" + kind) if safety else kind,
                                           hashlib.sha1(emit_norm(clause).encode()).hexdigest()[:10]),
        })
    if vres.get("encountered-vir-error") or (not vres.get("success") and not R.failures and not R.tool_errors):
        R.tool_errors.append("verus stopped before verification: " + vr["stderr"][-1500:])
    return R

def verify_unit(unit, repo_copy, workdir, extra=None):
    """Verify a unit; when Verus rejects the *text* of an extracted function (unsupported construct,
    type error after a refactoring), demote that function to an assumed contract and re-run, so that
    the rest of the unit is still decided.  Demoted functions are decided by their Kani twins."""
    demote = {}
    R = None
    for attempt in range(6):
        try:
            R = verify_unit_once(unit, repo_copy, workdir, extra=extra, demote=set(demote))
        except emit.EmitError as e:
            # a lost anchor inside one function: demote that function if we can name it
            m = re.search(r" in (.+?) \(", str(e)) or re.search(r"of (.+?) \(found", str(e))
            name = m.group(1) if m else None
            if name and name not in demote and "lost anchor" in str(e) and "file" not in str(e):
                demote[name] = str(e); continue
            raise
        new = [c for c in R.tool_culprits if c not in demote]
        if not new:
            break
        for c in new:
            demote[c] = "; ".join(t for t in R.tool_errors)[:300]
    R.demoted = demote
    if demote:
        # tool errors that were resolved by demotion are not undecided-for-everything any more
        if not R.tool_culprits:
            R.tool_errors = [t for t in R.tool_errors if False]
    return R

def emit_norm(s):
    return re.sub(r"\s+", "", s)

# ----------------------------------------------------------------------
def load_known():
    """KNOWN_FINDINGS.txt: `known: property=<id> obligation=<oid> <what>` lines suppress exactly that
    obligation; `fixed:` lines suppress nothing."""
    p = os.path.join(VERIF, "KNOWN_FINDINGS.txt")
    out = []
    if os.path.exists(p):
        for ln in open(p):
            ln = ln.strip()
            m = re.match(r"known:\s+property=(\S+)\s+obligation=(\S+)\s+(.*)", ln)
            if m:
                out.append({"status": "known", "property": m.group(1), "obligation": m.group(2), "what": m.group(3)})
            m = re.match(r"fixed:\s+property=(\S+)\s+(\S+)\s+(.*)", ln)
            if m:
                out.append({"status": "fixed", "property": m.group(1), "commit": m.group(2), "what": m.group(3)})
    return out

def fn_time_us(R, rec):
    name = rec.qname.split("::")[-1].split(" ")[0]
    if "emitted as" in rec.qname:
        name = rec.qname.split("emitted as ")[1].rstrip(")")
    tot = 0
    for k, v in getattr(R, "breakdown", {}).items():
        if k.endswith("::" + name):
            tot += v.get("time_us", 0)
    return tot

def run_check(pid, tier, seed):
    props = load_props()
    if pid not in props or pid.startswith("_"):
        print("unknown or not-applicable property %s" % pid); return 2
    P = props[pid]
    t0 = time.time()
    sdir, repo_copy = runner.make_scratch(pid)
    violations, undecided, known_lines = [], [], []
    known = [k for k in load_known() if k.get("property") == pid and k.get("status") == "known"]
    fns, samples, assumptions, obligations, discharged = [], [], [], 0, 0
    solver_ms = 0.0
    unit_info = {}
    bounded = []
    needs_twin, want_cex = [], []
    standin_harnesses = []
    twins = props.get("_twins", {})
    fn_baseline = load_fn_baseline()
    crosscheck = {}     # qname -> list of twin harness names: Verus failed on CHANGED text of a function whose proof needs scaffolding
    # ---- E1 Verus
    for unit in P.get("units", []):
        try:
            R = verify_unit(unit, repo_copy, sdir)
        except emit.EmitError as e:
            undecided.append("unit %s: %s" % (unit, e)); continue
        except ToolError as e:
            undecided.append("unit %s: %s" % (unit, e)); continue
        stability = None
        if tier == "thorough" and not R.tool_errors:
            # second run with another SMT random seed and half the resource limit: a query that only
            # just succeeds is the kind that later fails for no semantic reason - report, never alarm
            try:
                R2 = verify_unit_once(unit, repo_copy, sdir, extra=["--rlimit", "5", "--smt-option", "smt.random_seed=%d" % (seed % 1000 + 1)],
                                      demote=set(R.demoted))
                f1 = sorted(set(f["obligation"] for f in R.failures if f.get("fn")))
                f2 = sorted(set(f["obligation"] for f in R2.failures if f.get("fn")))
                stability = {"second_run": "rlimit 5, smt.random_seed=%d" % (seed % 1000 + 1), "verified": R2.verified,
                             "same_verdicts": f1 == f2 and not R2.tool_errors, "tool_errors": R2.tool_errors[:3]}
                if not stability["same_verdicts"]:
                    undecided.append("unit %s: verdicts are not stable under a different SMT seed / lower rlimit: %s" % (unit, (R2.tool_errors or f2)[:3]))
            except Exception as e:
                stability = {"error": str(e)[:200]}
        unit_info[unit] = {"verus_verified": R.verified, "verus_errors": R.errors, "wall_s": round(R.wall, 2), "stability": stability,
                           "rewrites": R.rewrites, "cut_points": R.cuts, "checker_cmd": R.cmd,
                           "constants_extracted_from_source": ["%s:%d %s" % (c["file"], c["line"], c["text"]) for c in getattr(getattr(R, "emitter", None), "const_records", [])]}
        undecided += ["unit %s: %s" % (unit, t) for t in R.tool_errors]
        assumptions += [a for a in R.assumptions if a not in assumptions]
        failed_fns = {}
        canary_seen = any(f["fn"] is None and (f.get("lemma") or "").startswith("canary_must_fail") for f in R.failures)
        if unit != "canary" and not R.tool_errors and not canary_seen:
            undecided.append("unit %s: in-unit canary (ensures false under all assumed theories) did not fail - theories inconsistent?" % unit)
        for f in R.failures:
            if f["fn"] is None and (f.get("lemma") or "").startswith("canary_must_fail"):
                continue
            if f["fn"] is None:
                # lemma or theory text failed: our own text, cannot be caused by /repo -> undecided
                lp = P.get("lemma_prefix", pid)
                if f.get("lemma") and (f["lemma"].startswith(lp) or f["lemma"].startswith("lemma_")):
                    undecided.append("unit %s: lemma %s does not verify (%s)" % (unit, f["lemma"], f["text"]))
                continue
            failed_fns.setdefault(f["fn"], []).append(f)
        for rec in R.records:
            safety_props = rec.safety.split() if isinstance(rec.safety, str) else (rec.safety or [])
            relevant = pid in rec.props or pid in safety_props
            if not relevant:
                continue
            fl = [f for f in failed_fns.get(rec.qname, []) if pid in f["props"]]
            demoted = rec.qname in R.demoted
            ent = {"function": rec.qname, "file": "%s:%d" % (rec.file, rec.src_line), "mode": "proved-verus" if rec.mode == "proved" else "assumed-in-verus",
                   "backend": "verus/z3", "solver_us": fn_time_us(R, rec), "rewrites": rec.rewrites,
                   "role": "contract" if pid in rec.props else "panic-freedom only"}
            if rec.lost_hints:
                ent["lost_hints"] = rec.lost_hints
            if rec.mode in ("proved", "demoted"):
                obligations += 1
                solver_ms += ent["solver_us"] / 1000.0
                new_closures = getattr(rec, "unannotated_closures", 0) > P.get("_baseline_unannotated", {}).get(rec.qname, BASE_UNANNOTATED.get("%s/%s" % (unit, rec.qname), 0))
                if demoted or (fl and (rec.lost_hints or new_closures)):
                    # the changed text is outside Verus' reach (unsupported construct / proof hint could not
                    # be placed): Verus does not decide this function any more; its bounded Kani twin does
                    ent["status"] = "not decided by verus: " + (R.demoted.get(rec.qname) or ("proof hints lost: %s" % rec.lost_hints if rec.lost_hints else "the changed body contains a closure without a contract (closures have no postcondition in Verus)"))[:300]
                    ent["mode"] = "demoted (kani twin decides)"
                    needs_twin.append((unit, rec))
                    fl = []
                elif not fl and not R.tool_errors:
                    discharged += 1; ent["status"] = "discharged"
                elif fl:
                    ent["status"] = "FAILED"
                    want_cex.append((unit, rec))
                    key = "%s/%s" % (unit, rec.qname)
                    changed = key in fn_baseline and fn_baseline[key] != getattr(rec, "src_hash", None)
                    scaffold = any(k != "spec" for k, _ in rec.clauses)
                    if changed and scaffold and twins.get(key) and all(f["kind"] in ("postcondition", "assertion", "invariant") for f in fl):
                        # the proof of this function relies on invariants / closure contracts / hints written for the
                        # committed text; on CHANGED text a failed proof alone is not evidence - its twins arbitrate
                        crosscheck[rec.qname] = [h["harness"] for h in twins[key]]
                        ent["status"] = "FAILED in Verus on changed text - bounded twins arbitrate"
                else:
                    ent["status"] = "undecided"
                if len(samples) < 6 and rec.clauses:
                    samples.append({"obligation": "%s/%s" % (unit, rec.qname), "source": ent["file"],
                                    "contract": re.sub(r"\s+", " ", rec.clauses[0][1])[:400]})
            else:
                sl = props.get("_standins", {}).get("%s/%s" % (unit, rec.qname), [])
                ent["status"] = "assumed in Verus" + ("; bounded Kani stand-in: " + ", ".join(h["harness"] for h in sl) if sl else "; no stand-in")
                twin_emission = [r2 for r2 in R.records if r2.qname.startswith(rec.qname + " (emitted as ") and r2.mode == "proved"]
                if twin_emission:
                    ent["status"] = ("trait-method emission without body; the SAME source item is emitted and proved as the free function `%s` (N11) with the identical contract"
                                     % twin_emission[0].qname.split("emitted as ")[1].rstrip(")")) + ("; additional Kani stand-in: " + ", ".join(h["harness"] for h in sl) if sl else "")
                for h in sl:
                    standin_harnesses.append(h)
            fns.append(ent)
            for f in fl:
                violations.append(f)
        # lemmas of this property
        lp = P.get("lemma_prefix", pid)
        for k, v in getattr(R, "breakdown", {}).items():
            nm = k.split("::")[-1]
            if v.get("mode") == "proof" and (nm.startswith(lp + "_") or nm.startswith("lemma_")):
                if nm.startswith(lp + "_"):
                    obligations += 1
                    ok = v.get("success") and not R.tool_errors
                    discharged += 1 if ok else 0
                    solver_ms += v.get("time_us", 0) / 1000.0
                    fns.append({"function": "lemma " + nm, "mode": "proved-verus", "backend": "verus/z3",
                                "solver_us": v.get("time_us", 0), "status": "discharged" if ok else "undecided",
                                "role": "property-level lemma over the contracts"})
    # ---- E2 Kani
    harnesses = [h for h in P.get("kani", []) + standin_harnesses if tier == "thorough" or not h.get("thorough_only")]
    uniq, seen_h = [], set()
    for h in harnesses:
        if h["harness"] not in seen_h:
            uniq.append(h); seen_h.add(h["harness"])
    harnesses = uniq
    have = set(h["harness"] for h in harnesses)
    twin_of = {}
    if tier == "thorough":
        # thorough: every twin of a function of this property is run even though Verus proved the
        # function - this is what shows, on the unchanged tree, that twin and contract agree
        for unit in P.get("units", []):
            for key, tl in twins.items():
                if not key.startswith(unit + "/"):
                    continue
                qn = key[len(unit) + 1:]
                if any(e.get("function") == qn for e in fns):
                    for h in tl:
                        if h["harness"] not in have:
                            harnesses.append(dict(h, twin=True)); have.add(h["harness"])
    for (unit, rec) in needs_twin + want_cex:
        tl = twins.get("%s/%s" % (unit, rec.qname), [])
        if not tl and (unit, rec) in needs_twin:
            undecided.append("%s/%s is no longer within Verus' reach after the change and has no Kani twin" % (unit, rec.qname))
        for h in tl:
            twin_of[h["harness"]] = (unit, rec, (unit, rec) in needs_twin)
            if h["harness"] not in have:
                harnesses.append(dict(h, twin=True)); have.add(h["harness"])
    if harnesses:
        try:
            kres = kanirun.run_harnesses(repo_copy, sdir, harnesses, tier)
        except ToolError as e:
            undecided.append("kani: %s" % e); kres = []
        for h, res in kres:
            if h.get("expect_fail"):
                if res["status"] != "FAILED":
                    undecided.append("vacuity guard: kani canary %s did not fail (%s)" % (h["harness"], res["status"]))
                continue
            ent = {"function": "kani harness %s (%s)" % (h["harness"], h["about"]), "backend": "kani/cbmc",
                   "mode": "proved-kani-complete" if h.get("complete") else "bounded(%s)" % h.get("bound", "?"),
                   "solver_us": int(res["wall_s"] * 1e6), "status": res["status"], "stubs": res.get("stubs", [])}
            fns.append(ent)
            if h["harness"] in twin_of:
                ent["twin_of"] = "%s/%s" % (twin_of[h["harness"]][0], twin_of[h["harness"]][1].qname)
            if h.get("complete"):
                obligations += 1
                if res["status"] == "SUCCESSFUL":
                    discharged += 1
            else:
                bounded.append({"harness": h["harness"], "bound": h.get("bound"), "status": res["status"], "about": h["about"]})
            solver_ms += res["wall_s"] * 1000.0
            if res["status"] == "FAILED" and h["harness"] in twin_of and not twin_of[h["harness"]][2]:
                # counterexample for a Verus failure already reported: attach the input, no second violation
                for v in violations:
                    if v.get("fn") == twin_of[h["harness"]][1].qname and not v.get("input"):
                        v["input"] = res.get("playback") or {"kani_failed_checks": res.get("failed_checks", "")[:1500], "harness": h["harness"]}
                continue
            if res["status"] == "FAILED":
                violations.append({"fn": h["about"], "kind": "kani:" + ("complete" if h.get("complete") else "bounded"),
                                   "text": res.get("failed_checks", "")[:2000], "clause": h["harness"], "props": [pid],
                                   "rendered": res.get("tail", ""), "src": h.get("src"),
                                   "obligation": "kani/%s" % h["harness"], "input": res.get("playback")})
            elif res["status"] != "SUCCESSFUL":
                undecided.append("kani harness %s: %s" % (h["harness"], res["status"]))
            for a in h.get("assumes", []):
                if a not in assumptions:
                    assumptions.append(a)
    # ---- cross-check rule: a Verus failure on the changed text of a scaffolded function stands only if a twin agrees
    if crosscheck and harnesses:
        status = {h["harness"]: res["status"] for h, res in kres}
        for qn, hs in crosscheck.items():
            sts = [status.get(h) for h in hs]
            if sts and all(st == "SUCCESSFUL" for st in sts):
                violations = [v for v in violations if v.get("fn") != qn]
                undecided.append("the Verus proof of %s does not go through on the changed text, but its bounded twins (%s) find no deviation "
                                 "from the contract: the proof scaffolding (invariants, closure contracts, hints) may simply not fit the refactored text" % (qn, ", ".join(hs)))
    # ---- E3 native witnesses of derived refutations (a lemma proves the negation of a sentence of the
    # property from the contracts; the witness replays an instance on the real code)
    for w in P.get("witnesses", []):
        try:
            conf, outw = run_witness(repo_copy, w, seed)
        except ToolError as e:
            undecided.append("witness %s: %s" % (w["id"], e)); continue
        fns.append({"function": "native witness %s" % w["id"], "backend": "cargo test (real code)", "mode": "replay",
                    "status": "refutation confirmed" if conf else "not reproduced", "about": w["about"]})
        if conf:
            violations.append({"fn": w["about"], "kind": "derived-refutation", "text": outw, "clause": w["lemma"],
                               "props": [pid], "rendered": outw, "src": w.get("src"), "obligation": "witness/" + w["id"],
                               "input": {"replay_test": w["test"], "output": outw}})
    # ---- bounded stand-ins by native exhaustive enumeration on the real code (no stubs); a failing case IS a replayed input
    for w in P.get("native_bounded", []):
        try:
            okv, outw = run_native_enum(repo_copy, w, seed, tier)
        except ToolError as e:
            undecided.append("native enumeration %s: %s" % (w["id"], e)); continue
        fns.append({"function": "native enumeration %s (%s)" % (w["id"], w["about"]), "backend": "cargo test (real code, exhaustive over the stated bound)",
                    "mode": "bounded(%s)" % w["bound"], "status": "SUCCESSFUL" if okv else "FAILED", "solver_us": 0})
        bounded.append({"harness": w["id"], "bound": w["bound"], "status": "SUCCESSFUL" if okv else "FAILED", "about": w["about"]})
        if not okv:
            violations.append({"fn": w["about"], "kind": "native-enumeration", "text": outw, "clause": w["id"], "props": [pid],
                               "rendered": outw, "src": w.get("src"), "obligation": "enum/" + w["id"],
                               "input": {"replay_test": w["test"], "failing_case": outw, "replayed_on_real_code": True}})
    # ---- vacuity canary (the toolchain must be able to fail)
    try:
        C = verify_unit("canary", repo_copy, sdir)
        canary_ok = C.errors >= 1 and C.verified >= 1
    except Exception as e:
        canary_ok = False
    if not canary_ok:
        undecided.append("vacuity guard: canary unit with a false lemma did not fail")
    if obligations == 0:
        undecided.append("vacuity guard: zero obligations generated")
    # ---- expected counts (ledger)
    ledger = P.get("expected_obligations")
    if ledger is not None and obligations != ledger and not undecided:
        undecided.append("vacuity guard: %d obligations generated, ledger expects %d" % (obligations, ledger))

    # ---- verdict
    new_viol = []
    for v in violations:
        hit = None
        for k in known:
            if k.get("obligation") == v["obligation"]:
                hit = k; break
        if hit:
            known_lines.append("KNOWN-FINDING: property=%s %s" % (pid, hit.get("what", v["obligation"])))
        else:
            new_viol.append(v)
    # known findings that are derived refutations (no failing obligation): printed when their witness check passes
    OUT = os.environ.get("VERIF_OUT_DIR") or VERIF      # seedtool redirects evidence/replay files of mutant runs
    os.makedirs(os.path.join(OUT, "replay", "out"), exist_ok=True)
    out_lines = []
    seen = set()
    for v in new_viol:
        if v["obligation"] in seen:
            continue
        seen.add(v["obligation"])
        rp = os.path.join(OUT, "replay", "out", "%s-%s.json" % (pid, hashlib.sha1(v["obligation"].encode()).hexdigest()[:10]))
        json.dump({"property": pid, "obligation": v["obligation"], "function": v.get("fn"), "kind": v.get("kind"),
                   "failed_clause": v.get("clause"), "source": v.get("src"), "verifier_message": v.get("text"),
                   "verifier_output": v.get("rendered"), "input": v.get("input"),
                   "replay": "./check %s   (re-runs the obligation on /repo's working tree)" % pid}, open(rp, "w"), indent=1)
        tail = "" if v.get("input") else " no-failing-input-found"
        out_lines.append("VIOLATION property=%s replay=%s obligation=%s%s" % (pid, rp, v["obligation"], tail))
    wall = time.time() - t0
    level = P.get("level", "proof")
    ev = {
        "property_id": pid, "tier": tier, "seed": seed, "level": level,
        "coverage": {
            "obligations": obligations, "discharged": discharged,
            "checker_cmd": "; ".join(u["checker_cmd"] for u in unit_info.values()) or "cargo kani",
            "trusted_base": assumptions,
            "functions_under_contract": fns,
            "bounded_standins": bounded,
            "units": unit_info,
            "solver_ms_total": round(solver_ms, 1),
            "samples": samples or [{"note": "no sample"}],
            "not_covered": P.get("not_covered", []),
            "explanation": P.get("explanation", ""),
            "undecided": undecided,
            "known_findings_reported": known_lines,
            "vacuity_guards": {"canary_fails_as_required": canary_ok, "obligations_nonzero": obligations > 0},
        },
        "assumptions": P.get("assumptions", []) + ["every item of coverage.trusted_base is assumed, not proved"],
        "wall_s": round(wall, 2),
        "violations": len(out_lines),
    }
    os.makedirs(os.path.join(OUT, "evidence"), exist_ok=True)
    json.dump(ev, open(os.path.join(OUT, "evidence", pid + ".json"), "w"), indent=1)
    for l in known_lines:
        print(l)
    for l in out_lines:
        print(l)
    if out_lines:
        return 1
    if undecided:
        print("UNDECIDED property=%s" % pid)
        for u in undecided:
            print("  - " + u[:600])
        return 2
    print("OK property=%s obligations=%d discharged=%d bounded_standins=%d wall=%.1fs" % (pid, obligations, discharged, len(bounded), wall))
    return 0

def run_witness(repo_copy, w, seed):
    dst = os.path.join(repo_copy, w["dir"], "tests")
    os.makedirs(dst, exist_ok=True)
    name = "verif_" + w["id"]
    shutil.copy(os.path.join(VERIF, w["test"]), os.path.join(dst, name + ".rs"))
    env = runner.offline_env({"CARGO_TARGET_DIR": os.path.join(runner.CACHE, "ntarget"), "VERIF_SEED": str(seed)})
    r = subprocess.run(["cargo", "test", "-p", w["package"], "--test", name, "--offline", "--", "--nocapture"],
                       cwd=repo_copy, env=env, stdout=subprocess.PIPE, stderr=subprocess.STDOUT, text=True, timeout=900)
    m = re.search(r"WITNESS-(CONFIRMED|NOT-REPRODUCED)[^\n]*", r.stdout)
    if not m:
        raise ToolError("witness test gave no verdict:\n" + r.stdout[-1500:])
    return m.group(1) == "CONFIRMED", m.group(0)

def run_native_enum(repo_copy, w, seed, tier="quick"):
    dst = os.path.join(repo_copy, w["dir"], "tests")
    os.makedirs(dst, exist_ok=True)
    name = "verif_" + w["id"]
    shutil.copy(os.path.join(VERIF, w["test"]), os.path.join(dst, name + ".rs"))
    env = runner.offline_env({"CARGO_TARGET_DIR": os.path.join(runner.CACHE, "ntarget"), "VERIF_SEED": str(seed), "VERIF_TIER": tier})
    cmd = ["cargo", "test", "-p", w["package"], "--test", name, "--offline"]
    if w.get("features"):
        cmd += ["--features", w["features"]]
    r = subprocess.run(cmd + ["--", "--nocapture"],
                       cwd=repo_copy, env=env, stdout=subprocess.PIPE, stderr=subprocess.STDOUT, text=True, timeout=1800)
    m = re.search(r"ENUM-(FAIL)[^\n]*", r.stdout) or re.search(r"ENUM-(OK)[^\n]*", r.stdout)
    if m and m.group(1) == "OK":
        oks = re.findall(r"ENUM-OK[^\n]*", r.stdout)
        if "test result: ok" not in r.stdout:
            m = None
        else:
            return True, "; ".join(oks)
    if not m:
        if "panicked at" in r.stdout:
            pm = re.search(r"panicked at [^\n]*\n[^\n]*", r.stdout)
            return False, "the real code panicked during the enumeration: " + (pm.group(0) if pm else "")[:300]
        raise ToolError("enumeration test gave no verdict:\n" + r.stdout[-1500:])
    return m.group(1) == "OK", m.group(0)

# ----------------------------------------------------------------------
def setup():
    """build third-party rlibs with Verus' toolchain into the cache; warm Kani"""
    sdir, repo_copy = runner.make_scratch("setup")
    arts, deps, t = runner.build_deps(repo_copy, ["adss", "sta-rs", "ppoprf"])
    print("dependency cache built in %.1fs (%d artifacts)" % (t, len(arts)))
    t0 = time.time()
    runner.expand_crate(repo_copy, "star-sharks", "_expanded/star_sharks.rs")
    print("macro expansion cache built in %.1fs" % (time.time() - t0))
    return 0

def main(argv):
    tier = os.environ.get("VERIF_TIER", "quick")
    seed = int(os.environ.get("VERIF_SEED", "0") or 0)
    if not argv:
        print(__doc__); return 2
    if argv[0] == "--setup":
        return setup()
    if argv[0] == "--replay":
        d = json.load(open(argv[1]))
        print(json.dumps(d, indent=1))
        return run_check(d["property"], tier, seed)
    if argv[0] == "--selftest":
        import selftest
        return selftest.main(argv[1:])
    pid = argv[0]
    if "--tier" in argv:
        tier = argv[argv.index("--tier") + 1]
    try:
        return run_check(pid, tier, seed)
    except ToolError as e:
        print("UNDECIDED property=%s\n  - %s" % (pid, e)); return 2
