"""Small Rust token scanner and item finder (stdlib only).

Not a parser: it tokenises (comments, strings, chars, lifetimes, numbers,
identifiers, single-char punctuation), matches brackets, and walks item
structure (fn / struct / enum / impl / mod / trait) so that an item can be
located by path and its source span returned verbatim.
"""
import re

class Tok:
    __slots__ = ("kind", "text", "start", "end")
    def __init__(self, kind, text, start, end):
        self.kind, self.text, self.start, self.end = kind, text, start, end
    def __repr__(self):
        return "Tok(%s,%r)" % (self.kind, self.text)

_ident = re.compile(r"[A-Za-z_][A-Za-z0-9_]*")
_number = re.compile(r"[0-9][0-9A-Za-z_]*(\.[0-9][0-9A-Za-z_]*)?")

class ScanError(Exception):
    pass

def tokenize(src, keep_comments=False):
    toks = []
    i, n = 0, len(src)
    while i < n:
        c = src[i]
        if c.isspace():
            i += 1
            continue
        if src.startswith("//", i):
            j = src.find("\n", i)
            j = n if j < 0 else j
            if keep_comments:
                toks.append(Tok("comment", src[i:j], i, j))
            i = j
            continue
        if src.startswith("/*", i):
            depth, j = 1, i + 2
            while j < n and depth:
                if src.startswith("/*", j):
                    depth += 1; j += 2
                elif src.startswith("*/", j):
                    depth -= 1; j += 2
                else:
                    j += 1
            if keep_comments:
                toks.append(Tok("comment", src[i:j], i, j))
            i = j
            continue
        # raw strings r"..", r#".."#, br"..."
        m = re.match(r"b?r(#*)\"", src[i:i + 40])
        if m:
            hashes = m.group(1)
            close = '"' + hashes
            j = src.find(close, i + len(m.group(0)))
            if j < 0:
                raise ScanError("unterminated raw string")
            j += len(close)
            toks.append(Tok("string", src[i:j], i, j)); i = j
            continue
        if c == '"' or (c == 'b' and src.startswith('b"', i)):
            j = i + (2 if c == 'b' else 1)
            while j < n and src[j] != '"':
                j += 2 if src[j] == "\\" else 1
            j += 1
            toks.append(Tok("string", src[i:j], i, j)); i = j
            continue
        if c == "'" or (c == 'b' and src.startswith("b'", i)):
            k = i + (1 if c == 'b' else 0)
            # char literal or lifetime
            m = re.match(r"'(\\.[^']*|[^'\\])'", src[k:k + 12])
            if m:
                j = k + len(m.group(0))
                toks.append(Tok("char", src[i:j], i, j)); i = j
                continue
            m = _ident.match(src, k + 1)
            if m and c == "'":
                toks.append(Tok("lifetime", src[i:m.end()], i, m.end())); i = m.end()
                continue
            raise ScanError("bad quote at %d" % i)
        m = _ident.match(src, i)
        if m:
            toks.append(Tok("ident", m.group(0), i, m.end())); i = m.end()
            continue
        m = _number.match(src, i)
        if m:
            # do not swallow `0..n` as a float
            t = m.group(0)
            if "." in t and src.startswith("..", i + t.index(".")):
                t = t[:t.index(".")]
            toks.append(Tok("number", t, i, i + len(t))); i += len(t)
            continue
        toks.append(Tok("punct", c, i, i + 1)); i += 1
    return toks

OPEN = {"(": ")", "[": "]", "{": "}"}
CLOSE = {")", "]", "}"}

def match_brackets(toks):
    """index of matching close for every open bracket token (and back)."""
    stack, m = [], {}
    for i, t in enumerate(toks):
        if t.kind != "punct":
            continue
        if t.text in OPEN:
            stack.append(i)
        elif t.text in CLOSE:
            if not stack:
                raise ScanError("unbalanced close at %d" % t.start)
            j = stack.pop()
            if OPEN[toks[j].text] != t.text:
                raise ScanError("mismatched bracket at %d" % t.start)
            m[j] = i; m[i] = j
    if stack:
        raise ScanError("unbalanced open")
    return m

def norm(toks):
    return "".join(t.text if t.kind != "ident" and t.kind != "lifetime" and t.kind != "number"
                   else " " + t.text + " " for t in toks).replace("  ", " ").strip()

def normtext(s):
    return norm(tokenize(s))

ITEM_KW = {"fn", "struct", "enum", "impl", "mod", "trait", "use", "const", "static",
           "type", "extern", "macro_rules", "union"}

class Item:
    def __init__(self):
        self.kind = None      # fn, struct, impl, ...
        self.name = None      # fn/struct name or normalised impl header
        self.attr_start = None  # token index where attributes start
        self.start = None     # token index of first non-attribute token (visibility or keyword)
        self.kw = None        # token index of the keyword
        self.body_open = None  # token index of '{' of body (None for `;` items)
        self.end = None       # token index of last token (inclusive)
        self.children = []

class File:
    def __init__(self, path, src):
        self.path, self.src = path, src
        self.toks = tokenize(src)
        self.match = match_brackets(self.toks)
        self.items = self._items(0, len(self.toks))

    def _items(self, lo, hi):
        toks, match = self.toks, self.match
        out = []
        i = lo
        while i < hi:
            it = Item()
            it.attr_start = i
            # attributes
            while i < hi and toks[i].text == "#":
                j = i + 1
                if toks[j].text == "!":
                    j += 1
                if toks[j].text != "[":
                    raise ScanError("bad attribute")
                i = match[j] + 1
            if i >= hi:
                break
            it.start = i
            # visibility / qualifiers
            while i < hi and toks[i].kind == "ident" and toks[i].text in ("pub", "unsafe", "async", "default"):
                i += 1
                if toks[i - 1].text == "pub" and i < hi and toks[i].text == "(":
                    i = match[i] + 1
            # `const fn` / `extern "C" fn`
            if toks[i].text == "const" and toks[i + 1].text == "fn":
                i += 1
            if toks[i].text == "extern" and toks[i + 1].kind == "string" and toks[i + 2].text == "fn":
                i += 2
            t = toks[i]
            if t.kind != "ident" or t.text not in ITEM_KW:
                # macro invocation at item level, e.g. foo! { .. } or foo!(..);
                j = i
                while j < hi and toks[j].text not in ("{", "(", "[", ";"):
                    j += 1
                if j < hi and toks[j].text != ";":
                    j = match[j]
                    if j + 1 < hi and toks[j + 1].text == ";":
                        j += 1
                it.kind, it.name, it.kw, it.end = "macro", toks[i].text, i, j
                out.append(it); i = j + 1
                continue
            it.kind, it.kw = t.text, i
            # find body '{' or terminating ';' at bracket depth 0
            j = i + 1
            while j < hi:
                x = toks[j].text
                if toks[j].kind == "punct" and x in ("(", "["):
                    j = match[j] + 1; continue
                if toks[j].kind == "punct" and x == "{":
                    break
                if toks[j].kind == "punct" and x == ";":
                    break
                j += 1
            if j >= hi:
                raise ScanError("item without end at %d" % t.start)
            if toks[j].text == ";":
                it.end = j
            else:
                it.body_open = j
                it.end = match[j]
                # tuple struct `struct X(..);` handled above via ';'
            if it.kind in ("fn", "struct", "enum", "mod", "trait", "union", "type", "const", "static"):
                it.name = toks[i + 1].text
            elif it.kind == "impl":
                it.name = norm(toks[i + 1: it.body_open])
            if it.kind in ("impl", "mod", "trait") and it.body_open is not None:
                it.children = self._items(it.body_open + 1, it.end)
            out.append(it)
            i = it.end + 1
        return out

    def find(self, path):
        """path: list like ['fn load_bytes'] or ['impl Share', 'fn from_bytes'] or
        ['mod tests', ...]; impl headers are compared after normalisation and with
        generic parameter lists (`impl<'a>`) ignored when the query has none."""
        items = self.items
        found = None
        for k, seg in enumerate(path):
            kind, _, name = seg.strip().partition(" ")
            name = name.strip()
            cands = []
            for it in items:
                if it.kind != kind:
                    continue
                if kind == "impl":
                    a, b = normtext(name), it.name
                    if a == b or _strip_impl_generics(b) == a:
                        cands.append(it)
                elif it.name == name:
                    cands.append(it)
            if len(cands) != 1:
                raise LookupError("anchor %r: %d candidates in %s" % (path[:k + 1], len(cands), self.path))
            found = cands[0]
            items = found.children
        return found

    def text(self, a, b):
        """source text of tokens a..b inclusive"""
        return self.src[self.toks[a].start:self.toks[b].end]

def _strip_impl_generics(h):
    h = h.strip()
    if h.startswith("<"):
        depth = 0
        for i, c in enumerate(h):
            if c == "<":
                depth += 1
            elif c == ">":
                depth -= 1
                if depth == 0:
                    return h[i + 1:].strip()
    return h

def strip_comments(src):
    """replace comments by spaces (newlines kept) so offsets/lines are stable"""
    out = list(src)
    for t in tokenize(src, keep_comments=True):
        if t.kind == "comment":
            for k in range(t.start, t.end):
                if out[k] != "\n":
                    out[k] = " "
    return "".join(out)
