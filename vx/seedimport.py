#!/usr/bin/env python3
"""seedimport.py <prop> <m>  : copy a confirmed seeded change from /tmp/wt-out into /verif/seeded/<prop>-<m>/"""
import sys, os, json, shutil, re
prop, m = sys.argv[1], sys.argv[2]
src = "/tmp/wt-out/%s" % prop
conf = json.load(open("%s/%s.confirm.json" % (src, m)))
assert conf.get("ok"), "not confirmed: %r" % conf
d = "/verif/seeded/%s-%s" % (prop, m)
os.makedirs(d, exist_ok=True)
shutil.copy("%s/%s.diff" % (src, m), d + "/patch.diff")
shutil.copy("%s/%s_demo.rs" % (src, m), d + "/demo.rs")
md = open("%s/%s.md" % (src, m)).read()
shutil.copy("%s/%s.md" % (src, m), d + "/notes.md")
crate = re.search(r"crate dir: *([a-z-]+)", open(d + "/demo.rs").readline()).group(1)
meta = {"property": prop, "origin": "independent sub-agent given only the property text and a scratch worktree",
        "demo_crate_dir": crate,
        "needs_to_manifest": "see notes.md (written by the author of the change)",
        "confirmed_by_me": {"command": "vx/seedtool.py confirm (scratch worktree): apply patch, cargo test --workspace --offline, run demo, revert, run demo",
                            "suite_with_change": conf["suite_with_change"], "suite_tests_passed": conf.get("suite_passed_tests"),
                            "demo_with_change": conf["demo_with_change"], "demo_without_change": conf["demo_without_change"]}}
json.dump(meta, open(d + "/meta.json", "w"), indent=1)
print("imported", d)
