#!/usr/bin/env python3
"""regenerate MANIFEST.json from vx/props.json + vx/manifest_static.json"""
import json, os
V = os.path.dirname(os.path.dirname(os.path.abspath(__file__)))
props = json.load(open(os.path.join(V, "vx", "props.json")))
st = json.load(open(os.path.join(V, "vx", "manifest_static.json")))
checks = []
for pid in sorted(k for k in props if not k.startswith('_')):
    P = props[pid]
    checks.append({
        "property_id": pid,
        "quick_cmd": "./check %s --tier quick" % pid,
        "thorough_cmd": "./check %s --tier thorough" % pid,
        "evidence_file": "/verif/evidence/%s.json" % pid,
        "replay_cmd_template": "./check --replay {path}",
        "engine": "contracts",
        "level_claimed": {"category": P.get("level", "proof"), "text": P["level_text"], "design_ref": P.get("design_ref", "DESIGN.md section 6")},
        "level_note": P["level_note"],
        "technique": P["technique"],
    })
st["checks"] = checks
st["not_applicable"] = [n for n in st["not_applicable"] if n["property_id"] not in props]
json.dump(st, open(os.path.join(V, "MANIFEST.json"), "w"), indent=1)
print("MANIFEST.json: %d checks, %d not applicable" % (len(checks), len(st["not_applicable"])))
