# developer helper: pretty-print function contracts from a `verus --log-all` dump (.verus-log/crate.vir): python3 virpp.py crate.vir <regex on function path>
import re,sys
def parse(s):
    toks=re.findall(r'"(?:[^"\\]|\\.)*"|[()]|[^\s()]+',s)
    pos=0
    def rd():
        nonlocal pos
        t=toks[pos]; pos+=1
        if t=='(':
            l=[]
            while toks[pos]!=')': l.append(rd())
            pos+=1
            return l
        return t
    out=[]
    while pos<len(toks): out.append(rd())
    return out
def head(x): return x[0] if isinstance(x,list) and x and isinstance(x[0],str) else None
def find(x,key):
    if isinstance(x,list):
        for i,e in enumerate(x):
            if e==key and i+1<len(x): return x[i+1]
def r(x):
    if isinstance(x,str): return x
    if not x: return ""
    h=x[0]
    if h in ('@','@@') and len(x)>=3: return r(x[2])
    if h=='>': return r(x[1:])
    if h=='Call':
        tgt=find(x,':target'); args=find(x,':args') or []
        name="?"
        if isinstance(tgt,list):
            for e in tgt:
                if isinstance(e,list) and e and e[0]=='Fun': name=e[2].split('::')[-1] if len(e)>2 else '?'
                if isinstance(e,list) and e and e[0]=='BuiltinSpecFun': name=e[1]
        return "%s(%s)"%(name,", ".join(r(a) for a in args))
    if h=='Binary': return "(%s %s %s)"%(r(x[2]), r(x[1]), r(x[3]))
    if h=='BinaryOp': return " ".join(r(e) for e in x[1:])
    if h=='InequalityOp': return x[1]
    if h=='Logical': return "(%s %s %s)"%(r(x[2]), x[1][1], r(x[3]))
    if h=='Unary': return r(x[2]) if x[1][1] in ('Trigger','Clip','CoerceMode') else "%s(%s)"%(x[1][1], r(x[2]))
    if h=='Quant':
        vs=[v[1] for v in x[2]]; return "%s|%s| %s"%(x[1][0], ",".join(vs), r(x[3]))
    if h in ('ReadPlace','Place','Temporary','Local'): return " ".join(r(e) for e in x[1:2])
    if h=='VarIdent': return x[1].strip('"')
    if h=='Var': return r(x[1])
    if h=='Const': return r(x[1])
    if h=='Constant': return x[-1]
    if h=='Typ' or h=='UnfinalizedReadKind': return ""
    if h=='Ctor': return "(%s)"%", ".join(r(f[2]) for f in x[3] if isinstance(f,list))
    if h=='Block':
        return "{%s; %s}"%("; ".join(r(e) for e in x[1]), r(x[2]) if len(x)>2 else "")
    if h=='Stmt': 
        return "%s=%s"%(r(find(x,':pattern')), r(find(x,':init')))
    if h=='Pattern': return r(x[2]) if len(x)>2 else ""
    if h=='PatternBinding': return r(find(x,':name'))
    if h=='If': return "if %s {%s} else {%s}"%(r(x[1]),r(x[2]),r(x[3]) if len(x)>3 else "")
    if h=='Field': return "%s.%s"%(r(x[-1]) if isinstance(x[-1],list) else "", "f")
    return "["+" ".join(r(e) for e in x if not (isinstance(e,list) and e and e[0] in('Typ','UnfinalizedReadKind')))+"]"
s=open(sys.argv[1]).read()
pat=sys.argv[2]
for m in re.finditer(r'\(Function\s', s):
    a=m.start(); depth=0; i=a
    while True:
        if s[i]=='(': depth+=1
        elif s[i]==')':
            depth-=1
            if depth==0: break
        elif s[i]=='"':
            i=s.index('"',i+1)
        i+=1
    blk=s[a:i+1]
    nm=re.search(r':name \(Fun :path ([^\s)]+)',blk)
    if nm and re.search(pat,nm.group(1)):
        t=parse(blk)[0]
        print("=====",nm.group(1))
        for key in (':require',':ensure',':body'):
            v=find(t,key)
            if v:
                if key==':ensure' and isinstance(v,list) and v and v[0]=='tuple': v=v[1:]
                print(key, ":")
                if isinstance(v,list) and v and isinstance(v[0],list) and key!=':body':
                    for e in (v[0] if len(v)==1 and isinstance(v[0],list) and v[0] and isinstance(v[0][0],list) else v): print("   -", r(e)[:1500])
                else: print("   ", r(v)[:2500])
