// Demonstration for the C06 defect F7: Evaluator::gen hands out the share point x = 0 - i.e. the
// SECRET ITSELF as y = f(0) - when the supplied random source happens to produce the zero element
// ("arbitrary random-source streams" in the property's quantifier).
// Place in sharks/tests/ and run `cargo test -p star-sharks --test sharks_gen_zero_F7`.
use ff::PrimeField;
use rand::RngCore;
use star_sharks::{Fp, Sharks};

/// first element drawn is zero, every later one is non-zero
struct ZeroThenOnes { calls: u32 }
impl RngCore for ZeroThenOnes {
  fn next_u32(&mut self) -> u32 { self.next_u64() as u32 }
  fn next_u64(&mut self) -> u64 {
    // Fp::random consumes three u64 limbs per attempt: first attempt (0,0,0), then (5,0,0) forever
    self.calls += 1;
    if self.calls > 3 && self.calls % 3 == 1 { 5 } else { 0 }
  }
  fn fill_bytes(&mut self, dest: &mut [u8]) { for b in dest.iter_mut() { *b = 0; } }
  fn try_fill_bytes(&mut self, dest: &mut [u8]) -> Result<(), rand::Error> { self.fill_bytes(dest); Ok(()) }
}

#[test]
fn dealt_share_never_sits_at_x_zero() {
  let mut secret = [0u8; 24];
  secret[0] = 42;
  let mut coin = rand_chacha::ChaCha8Rng::from_seed([7u8; 32]);
  use rand_chacha::rand_core::SeedableRng;
  let ev = Sharks(3).dealer_rng(&secret, &mut coin).unwrap();
  let share = ev.gen(&mut ZeroThenOnes { calls: 0 });
  assert!(share.x != Fp::from(0u64), "share point is zero");
  assert!(share.y[0].to_repr().as_ref() != &secret[..], "a single share reveals the secret");
}
