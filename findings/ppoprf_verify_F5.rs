// Demonstration for the C09 defect F5: Client::verify (the receiver of an evaluation and of a
// public key sent by the randomness server) panics instead of returning false on
//  (a) an evaluation without proof, (b) an undecodable output point, (c) an undecodable input
//  point, (d) a public key holding an undecodable point.
// Place in ppoprf/tests/ and run `cargo test -p ppoprf --test ppoprf_verify_F5`.
use ppoprf::ppoprf::*;

fn setup() -> (Server, Point, Evaluation) {
  let server = Server::new(vec![7u8]).unwrap();
  let (blinded, _r) = Client::blind(b"input");
  let eval = server.eval(&blinded, 7, true).unwrap();
  (server, blinded, eval)
}

#[test]
fn missing_proof_is_rejected_not_a_panic() {
  let (server, blinded, eval) = setup();
  let e = Evaluation { output: eval.output, proof: None };
  assert!(!Client::verify(&server.get_public_key(), &blinded, &e, 7));
}

#[test]
fn undecodable_output_is_rejected_not_a_panic() {
  let (server, blinded, eval) = setup();
  let e = Evaluation { output: Point::from(&[0xffu8; 32][..]), proof: eval.proof };
  assert!(!Client::verify(&server.get_public_key(), &blinded, &e, 7));
}

#[test]
fn undecodable_input_is_rejected_not_a_panic() {
  let (server, _blinded, eval) = setup();
  let bad = Point::from(&[0xffu8; 32][..]);
  assert!(!Client::verify(&server.get_public_key(), &bad, &eval, 7));
}

#[test]
fn undecodable_public_key_is_rejected_not_a_panic() {
  let (server, blinded, eval) = setup();
  let mut bytes = server.get_public_key().serialize_to_bincode().unwrap();
  // bincode layout: base_pk is the first 32 bytes (serde tuple of 32 u8, no length prefix)
  for b in bytes.iter_mut().take(32) { *b = 0xff; }
  let pk = ServerPublicKey::load_from_bincode(&bytes).expect("32 arbitrary bytes deserialize as a compressed point");
  assert!(!Client::verify(&pk, &blinded, &eval, 7));
}
