// Demonstration for the C07 defect: with #[PrimeFieldGenerator = "3"] the published
// MULTIPLICATIVE_GENERATOR is a quadratic residue mod 2^128+12451 (so not a generator), and
// ROOT_OF_UNITY (= g^((p-1)/2)) is 1 instead of the primitive square root of unity p-1.
// Place in sharks/tests/ and run `cargo test -p star-sharks --test sharks_generator_F9`.
use ff::{Field, PrimeField};
use star_sharks::Fp;

#[test]
fn generator_is_a_nonresidue() {
  let s: Option<Fp> = Fp::MULTIPLICATIVE_GENERATOR.sqrt().into();
  assert!(s.is_none(), "the multiplicative generator must be a quadratic non-residue");
}

#[test]
fn root_of_unity_is_primitive() {
  assert!(Fp::ROOT_OF_UNITY * Fp::ROOT_OF_UNITY == Fp::ONE);
  assert!(Fp::ROOT_OF_UNITY != Fp::ONE, "2^S-th root of unity must have order exactly 2^S");
  assert!(Fp::ROOT_OF_UNITY == -Fp::ONE);
  assert!(Fp::ROOT_OF_UNITY * Fp::ROOT_OF_UNITY_INV == Fp::ONE);
  assert!(Fp::DELTA == Fp::MULTIPLICATIVE_GENERATOR.square());
}
