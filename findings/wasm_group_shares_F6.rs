// Demonstration for the C09 defect F6: star_wasm::group_shares panics instead of returning None on
// (a) text that is not base64, (b) base64 that does not decode to a share.
// Place in star-wasm/tests/ and run `cargo test -p star-wasm --test wasm_group_shares_F6`.
use star_wasm::group_shares;

#[test]
fn undecodable_base64_is_none_not_a_panic() {
  assert_eq!(group_shares("!!! not base64 !!!", "epoch"), None);
}

#[test]
fn malformed_share_is_none_not_a_panic() {
  // valid base64 of three zero bytes: far too short to be a share
  assert_eq!(group_shares("AAAA", "epoch"), None);
}

#[test]
fn empty_input_is_none_not_a_panic() {
  assert_eq!(group_shares("", "epoch"), None);
}
