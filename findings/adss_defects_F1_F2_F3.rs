use adss::*;
#[test] fn f1_load_bytes_overflow() { let _ = load_bytes(&[0xfd,0xff,0xff,0xff,1,2,3]); }
#[test] fn f1b_load_bytes_overflow() { let _ = load_bytes(&[0xff,0xff,0xff,0xff]); }
#[test] fn f2_share_short() { let _ = Share::from_bytes(&[1,2]); }
#[test] fn f2b_share_empty() { let _ = Share::from_bytes(&[]); }
#[test] fn f3_recover_no_y() {
  // threshold 1, S = 24-byte x only (x = 1), empty C, D, J = 64 zero bytes
  let mut b = vec![1u8,0,0,0];
  let mut s = vec![0u8;24]; s[0]=1;
  store_bytes(&s, &mut b); store_bytes(&[], &mut b); store_bytes(&[], &mut b);
  b.extend([0u8;64]);
  let sh = Share::from_bytes(&b).unwrap();
  let _ = recover(&vec![sh]);
}
