// E3 native replay of the C03 refutation (lemma C03_reuse) on the REAL code: two reports of the
// same (measurement, epoch, threshold) with different associated data of equal length.
// Prints WITNESS-CONFIRMED when ct1 ^ ct2 == payload1 ^ payload2 on the first min(len,166) bytes.
use sta_rs::*;

fn report(aux: &[u8]) -> (Vec<u8>, Vec<u8>) {
  let seed: u64 = std::env::var("VERIF_SEED").ok().and_then(|s| s.parse().ok()).unwrap_or(0);
  let mut measurement = b"https://example.org/a-popular-page".to_vec();
  measurement.extend(seed.to_le_bytes());
  let mg = MessageGenerator::new(SingleMeasurement::new(&measurement), 3, b"epoch-7");
  let mut rnd = [0u8; 32];
  mg.sample_local_randomness(&mut rnd);
  let m = Message::generate(&mg, &rnd, Some(AssociatedData::new(aux))).unwrap();
  let mut payload = Vec::new();
  store_bytes(&measurement, &mut payload);
  store_bytes(aux, &mut payload);
  (m.ciphertext.to_bytes(), payload)
}

#[test]
fn c03_keystream_reuse() {
  let (c1, p1) = report(b"AAAAAAAA-user-1-secret-metadata");
  let (c2, p2) = report(b"BBBBBBBC-user-2-other-metadata!");
  assert_eq!(c1.len(), c2.len());
  let n = c1.len().min(166);
  let cx: Vec<u8> = (0..n).map(|i| c1[i] ^ c2[i]).collect();
  let px: Vec<u8> = (0..n).map(|i| p1[i] ^ p2[i]).collect();
  let nonzero = px.iter().filter(|b| **b != 0).count();
  if cx == px && nonzero > 0 {
    println!("WITNESS-CONFIRMED c03_keystream_reuse bytes={} differing={} ct_xor_tail={:?}", n, nonzero, &cx[n - 8..]);
  } else {
    println!("WITNESS-NOT-REPRODUCED c03_keystream_reuse");
  }
}
