// Bounded stand-ins by NATIVE EXHAUSTIVE ENUMERATION on the real code (no stubs, real STROBE and field arithmetic).
//
// (1) star_roundtrip_grid (C01; stands in for Message::generate, which has no Kani twin): for every threshold 1..=3,
//     measurement length in {0, 1, 40}, associated data in {None, Some(empty), Some(1 byte), Some(200 bytes)}:
//     t clients report, every report goes through to_bytes/from_bytes, recovery succeeds, the key derived from the
//     recovered value decrypts every report to exactly (measurement, associated data OR ITS ABSENCE).
// (2) recover_mixture_enum (C05/C16/C01; stands in for the prologue of adss::recover and for share_recover): every
//     sequence of 1..=4 shares drawn with repetition from three shares of sharing A and three of sharing B (both
//     threshold 2, different messages): the result is Err or the message of the sharing of the FIRST share, never
//     the other one; and it IS that message whenever the first two distinct shares of the sequence belong to it.
// (3) tamper_first_enum (C05: "alterations of the share that supplies the ciphertext are always rejected"): four shares
//     of one threshold-2 sharing; every sequence of 2..=4 of them (with repetition) containing two distinct shares,
//     with one bit of the share VALUE (or of the share POINT) of the FIRST element flipped: recovery must be Err.
// Prints ENUM-OK <cases> or ENUM-FAIL <case>.
use sta_rs::*;

fn reports(m: &[u8], epoch: &[u8], t: u32, aux: &Option<Vec<u8>>, n: usize) -> Vec<Vec<u8>> {
  let mg = MessageGenerator::new(SingleMeasurement::new(m), t, epoch);
  let mut rnd = [0u8; 32];
  mg.sample_local_randomness(&mut rnd);
  (0..n)
    .map(|_| {
      Message::generate(&mg, &rnd, aux.as_ref().map(|a| AssociatedData::new(a)))
        .unwrap()
        .to_bytes()
    })
    .collect()
}

#[test]
fn star_roundtrip_grid() {
  let mut cases = 0u64;
  let auxes: Vec<Option<Vec<u8>>> = vec![None, Some(vec![]), Some(vec![0x5a]), Some((0..200u8).collect())];
  for t in 1u32..=3 {
    for ml in [0usize, 1, 40] {
      let m: Vec<u8> = (0..ml as u8).map(|i| i.wrapping_mul(7).wrapping_add(1)).collect();
      for aux in &auxes {
        cases += 1;
        let enc = reports(&m, b"epoch-1", t, aux, t as usize);
        let msgs: Vec<Message> = match enc.iter().map(|b| Message::from_bytes(b)).collect::<Option<Vec<_>>>() {
          Some(v) => v,
          None => { println!("ENUM-FAIL t={} |m|={} aux={:?}: an encoded report does not decode", t, ml, aux.as_ref().map(|a| a.len())); return; }
        };
        let shares: Vec<Share> = msgs.iter().map(|x| x.share.clone()).collect();
        let c = match share_recover(&shares) {
          Ok(c) => c,
          Err(e) => { println!("ENUM-FAIL t={} |m|={} aux={:?}: recovery failed: {}", t, ml, aux.as_ref().map(|a| a.len()), e); return; }
        };
        let mut key = [0u8; 16];
        derive_ske_key(&c.get_message(), b"epoch-1", &mut key);
        for mm in &msgs {
          let pt = mm.ciphertext.decrypt(&key, "star_encrypt");
          let got_m = load_bytes(&pt);
          let rest_aux = got_m.and_then(|g| if pt.len() > 4 + g.len() { load_bytes(&pt[4 + g.len()..]).map(|a| a.to_vec()) } else { None });
          let ok = got_m == Some(&m[..]) && rest_aux == *aux
            && pt.len() == 4 + m.len() + aux.as_ref().map(|a| 4 + a.len()).unwrap_or(0);
          if !ok {
            println!("ENUM-FAIL t={} |m|={} aux={:?}: decrypted payload is not (measurement, aux-or-absence): got measurement {:?}, aux {:?}, {} payload bytes",
                     t, ml, aux.as_ref().map(|a| a.len()), got_m.map(|g| g.len()), rest_aux.as_ref().map(|a| a.len()), pt.len());
            return;
          }
        }
      }
    }
  }
  println!("ENUM-OK cases={}", cases);
}

#[test]
fn recover_mixture_enum() {
  let ma = b"measurement A".to_vec();
  let mb = b"measurement B!".to_vec();
  let ra = reports(&ma, b"e", 2, &None, 3);
  let rb = reports(&mb, b"e", 2, &None, 3);
  let pool: Vec<(u8, Share)> = ra.iter().map(|b| (0u8, Message::from_bytes(b).unwrap().share))
    .chain(rb.iter().map(|b| (1u8, Message::from_bytes(b).unwrap().share))).collect();
  let msg_of = |which: u8| -> Vec<u8> {
    let sh: Vec<Share> = pool.iter().filter(|p| p.0 == which).take(2).map(|p| p.1.clone()).collect();
    share_recover(&sh).unwrap().get_message()
  };
  let (va, vb) = (msg_of(0), msg_of(1));
  assert!(va != vb);
  let mut cases = 0u64;
  for n in 1usize..=4 {
    for code in 0..6usize.pow(n as u32) {
      let mut idx = Vec::with_capacity(n);
      let mut c = code;
      for _ in 0..n { idx.push(c % 6); c /= 6; }
      let seq: Vec<Share> = idx.iter().map(|&i| pool[i].1.clone()).collect();
      let first = pool[idx[0]].0;
      // the first two DISTINCT shares of the sequence (shares of one pool entry are identical, all six differ)
      let mut distinct: Vec<usize> = Vec::new();
      for &i in &idx { if !distinct.contains(&i) { distinct.push(i); } }
      let complete = distinct.len() >= 2 && pool[distinct[0]].0 == first && pool[distinct[1]].0 == first;
      cases += 1;
      match share_recover(&seq) {
        Ok(c) => {
          let got = c.get_message();
          let want = if first == 0 { &va } else { &vb };
          if &got != want {
            println!("ENUM-FAIL sequence {:?} (0-2 = sharing A, 3-5 = sharing B): recovered the message of the OTHER sharing", idx);
            return;
          }
        }
        Err(e) => {
          if complete {
            println!("ENUM-FAIL sequence {:?} (0-2 = sharing A, 3-5 = sharing B): Err({}) although its first two distinct shares belong to the first share's sharing", idx, e);
            return;
          }
        }
      }
    }
  }
  println!("ENUM-OK cases={}", cases);
}

#[test]
fn tamper_first_enum() {
  let m = b"measurement T".to_vec();
  let pool: Vec<Share> = reports(&m, b"e", 2, &None, 4).iter().map(|b| Message::from_bytes(b).unwrap().share).collect();
  let mut cases = 0u64;
  for n in 2usize..=4 {
    for code in 0..4usize.pow(n as u32) {
      let mut idx = Vec::with_capacity(n);
      let mut c = code;
      for _ in 0..n { idx.push(c % 4); c /= 4; }
      let mut distinct = idx.clone();
      distinct.sort();
      distinct.dedup();
      if distinct.len() < 2 { continue; }
      // layout of an encoded share: 4 bytes threshold, 4 bytes length, 24 bytes point, 24 bytes value, ...
      for (what, off) in [("value", 32usize), ("point", 8usize)] {
        let mut seq: Vec<Share> = idx.iter().map(|&i| pool[i].clone()).collect();
        let mut b = seq[0].to_bytes();
        b[off] ^= 1;
        seq[0] = match Share::from_bytes(&b) { Some(s) => s, None => continue };
        cases += 1;
        if let Ok(c) = share_recover(&seq) {
          println!("ENUM-FAIL sequence {:?} of one sharing with the share {} of its FIRST element altered: recovery returned Ok ({} message bytes)", idx, what, c.get_message().len());
          return;
        }
      }
    }
  }
  println!("ENUM-OK cases={}", cases);
}
