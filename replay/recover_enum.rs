// Bounded stand-in by NATIVE EXHAUSTIVE ENUMERATION on the real code (no stubs): star_sharks::Sharks::recover on every
// sequence of 0..=5 shares drawn, with repetition and in every order, from four honest shares (x = 1..4) of a
// polynomial of degree t-1, for every threshold t = 1..=4 (plus threshold 0 and unequal-length cases).
// Contract (C06/C01): Ok(secret) iff at least t DISTINCT points occur (wherever the repeats sit); Err otherwise.
// Small numbers keep the reference arithmetic inside u64 (no reduction mod p needed), so the expected y values
// are computed independently of the crate.  Prints ENUM-OK <cases> or ENUM-FAIL <case>.
use star_sharks::{Share, Sharks};
use std::convert::TryFrom;

const SECRET: u64 = 7;

fn elem(v: u64) -> [u8; 24] {
  let mut b = [0u8; 24];
  b[..8].copy_from_slice(&v.to_le_bytes());
  b
}
/// f(x) = SECRET + 3x + 4x^2 + 5x^3 truncated to t coefficients
fn f(t: usize, x: u64) -> u64 {
  let c = [SECRET, 3, 4, 5];
  let mut acc = 0u64;
  let mut p = 1u64;
  for k in 0..t {
    acc += c[k] * p;
    p *= x;
  }
  acc
}
fn share(t: usize, x: u64, extra_y: bool) -> Share {
  let mut bytes = Vec::new();
  bytes.extend_from_slice(&elem(x));
  bytes.extend_from_slice(&elem(f(t, x)));
  if extra_y {
    bytes.extend_from_slice(&elem(1));
  }
  Share::try_from(&bytes[..]).unwrap()
}

#[test]
fn recover_enumeration() {
  let mut cases = 0u64;
  for t in 0usize..=4 {
    let protos: Vec<Share> = (1..=4u64).map(|x| share(t.max(1), x, false)).collect();
    for n in 0usize..=5 {
      let total = 4usize.pow(n as u32);
      for code in 0..total {
        let mut idx = Vec::with_capacity(n);
        let mut c = code;
        for _ in 0..n {
          idx.push(c % 4);
          c /= 4;
        }
        let seq: Vec<Share> = idx.iter().map(|&i| protos[i].clone()).collect();
        let mut seen = [false; 4];
        for &i in &idx {
          seen[i] = true;
        }
        let distinct = seen.iter().filter(|b| **b).count();
        let sharks = Sharks(t as u32);
        let r = sharks.recover(&seq);
        cases += 1;
        let want_ok = t >= 1 && distinct >= t;
        match (&r, want_ok) {
          (Ok(v), true) => {
            if v[..] != elem(SECRET)[..] {
              println!("ENUM-FAIL threshold={} order_of_x={:?}: recovered {:?} instead of the secret", t, idx.iter().map(|i| i + 1).collect::<Vec<_>>(), &v[..8]);
              return;
            }
          }
          (Err(_), false) => {}
          (Ok(_), false) => {
            println!("ENUM-FAIL threshold={} order_of_x={:?}: Ok although only {} distinct points", t, idx.iter().map(|i| i + 1).collect::<Vec<_>>(), distinct);
            return;
          }
          (Err(e), true) => {
            println!("ENUM-FAIL threshold={} order_of_x={:?}: Err({}) although {} distinct points are present", t, idx.iter().map(|i| i + 1).collect::<Vec<_>>(), e, distinct);
            return;
          }
        }
      }
    }
    // unequal y lengths anywhere in the collection are refused
    if t >= 1 {
      for pos in 0..3usize {
        let mut seq: Vec<Share> = (1..=3u64).map(|x| share(t, x, false)).collect();
        seq[pos] = share(t, pos as u64 + 1, true);
        cases += 1;
        let sharks = Sharks(t as u32);
        if sharks.recover(&seq).is_ok() {
          println!("ENUM-FAIL threshold={} share {} has an extra y value: accepted", t, pos);
          return;
        }
      }
    }
  }
  println!("ENUM-OK cases={}", cases);
}
