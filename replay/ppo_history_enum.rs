// Bounded stand-in by NATIVE EXHAUSTIVE ENUMERATION of operation histories on the real randomness server
// (real GGM tree, STROBE and ristretto arithmetic; no stubs).  C14 - and the only check here that exercises
// ppoprf/src/ggm.rs, whose interface the Verus proof of the server layer ASSUMES (T-ggm).
//
// A server is created for the tags {0, 2, 6, 10, 128}; every history of 1..=3 (thorough tier: 4) operations out of
//   eval(md) for md in {0, 2, 6, 128, 3(unregistered)},  puncture(md) for md in {0, 2, 6, 128},
// and (feature key-sync) export + import of the key state into a fresh server,
// is run on a clone of that server and compared, operation by operation, with the reference model
//   eval(md) is Ok  <=>  md registered and not punctured so far;  its value is the one obtained before any puncture;
//   puncture(md) is Ok <=> md not punctured so far;  the public key never changes.
// Prints ENUM-OK <cases> or ENUM-FAIL <history>.   (uses key-sync when the feature is enabled)
use ppoprf::ppoprf::*;

#[derive(Clone, Copy, Debug)]
enum Op { Eval(u8), Punct(u8), Sync }

fn ops() -> Vec<Op> {
  let mut v = vec![Op::Eval(0), Op::Eval(2), Op::Eval(6), Op::Eval(128), Op::Eval(3),
                   Op::Punct(0), Op::Punct(2), Op::Punct(6), Op::Punct(128)];
  if cfg!(feature = "key-sync") { v.push(Op::Sync); }
  v
}

#[cfg(feature = "key-sync")]
fn sync(s: &Server) -> Server {
  let bytes = bincode::serialize(&s.get_private_key()).unwrap();
  let st: ServerKeyState = bincode::deserialize(&bytes).unwrap();
  let mut fresh = Server::new(vec![9]).unwrap();
  fresh.set_private_key(st);
  fresh
}
#[cfg(not(feature = "key-sync"))]
fn sync(s: &Server) -> Server { s.clone() }

#[test]
fn server_history_enum() {
  let registered = [0u8, 2, 6, 10, 128];
  let base = Server::new(registered.to_vec()).unwrap();
  let (point, _r) = Client::blind(b"some input");
  let pk0 = base.get_public_key().serialize_to_bincode().unwrap();
  let mut baseline = std::collections::BTreeMap::new();
  for md in registered {
    baseline.insert(md, base.eval(&point, md, false).unwrap().output.as_bytes().to_vec());
  }
  let all = ops();
  let k = all.len();
  let mut cases = 0u64;
  // quick tier: histories of up to 3 operations; thorough tier (VERIF_TIER=thorough): up to 4
  let max_len = if std::env::var("VERIF_TIER").ok().as_deref() == Some("thorough") { 4 } else { 3 };
  for n in 1usize..=max_len {
    for code in 0..k.pow(n as u32) {
      let mut h = Vec::with_capacity(n);
      let mut c = code;
      for _ in 0..n { h.push(all[c % k]); c /= k; }
      let mut s = base.clone();
      let mut punctured: Vec<u8> = Vec::new();
      cases += 1;
      for (step, op) in h.iter().enumerate() {
        match *op {
          Op::Eval(md) => {
            let want_ok = registered.contains(&md) && !punctured.contains(&md);
            match s.eval(&point, md, false) {
              Ok(ev) => {
                if !want_ok {
                  println!("ENUM-FAIL history {:?}: step {} answered for tag {} (registered: {}, punctured so far: {:?})", h, step, md, registered.contains(&md), punctured);
                  return;
                }
                if ev.output.as_bytes()[..] != baseline[&md][..] {
                  println!("ENUM-FAIL history {:?}: step {} the answer for tag {} differs from the answer before the punctures {:?}", h, step, md, punctured);
                  return;
                }
              }
              Err(_) => {
                if want_ok {
                  println!("ENUM-FAIL history {:?}: step {} refused tag {} although it is registered and not punctured ({:?})", h, step, md, punctured);
                  return;
                }
              }
            }
          }
          Op::Punct(md) => {
            let want_ok = !punctured.contains(&md);
            let r = s.puncture(md);
            if r.is_ok() != want_ok {
              println!("ENUM-FAIL history {:?}: step {} puncture({}) returned {:?} (punctured so far: {:?})", h, step, md, r.is_ok(), punctured);
              return;
            }
            if r.is_ok() { punctured.push(md); }
          }
          Op::Sync => { s = sync(&s); }
        }
        if s.get_public_key().serialize_to_bincode().unwrap() != pk0 {
          println!("ENUM-FAIL history {:?}: the public key changed at step {}", h, step);
          return;
        }
      }
    }
  }
  println!("ENUM-OK cases={}", cases);
}
