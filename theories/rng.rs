// T-rng (ASSUMED): rand / rand_core trait interfaces.
pub mod th_rng {
use super::*;

#[verifier::external_trait_specification]
pub trait ExRngCore {
    type ExternalTraitSpecificationFor: rand_core::RngCore;
    fn next_u32(&mut self) -> u32;
    fn next_u64(&mut self) -> u64;
    fn fill_bytes(&mut self, dest: &mut [u8]);
    fn try_fill_bytes(&mut self, dest: &mut [u8]) -> Result<(), rand_core::Error>;
}

#[verifier::external_trait_specification]
pub trait ExCryptoRng {
    type ExternalTraitSpecificationFor: rand_core::CryptoRng;
}

#[verifier::external_trait_specification]
pub trait ExFill {
    type ExternalTraitSpecificationFor: rand::Fill;
}

/// postcondition of `Rng::fill`, specialised per (RNG, destination) type by axioms next to the RNG
pub uninterp spec fn fill_post<R: ?Sized, T: ?Sized>(pre: &R, post: &R, dpre: &T, dpost: &T) -> bool;

#[verifier::external_trait_specification]
pub trait ExRng: rand_core::RngCore {
    type ExternalTraitSpecificationFor: rand::Rng;
    fn fill<T: rand::Fill + ?Sized>(&mut self, dest: &mut T)
        ensures fill_post::<Self, T>(old(self), final(self), old(dest), final(dest));
}

#[verifier::external_type_specification]
#[verifier::external_body]
pub struct ExRandCoreError(rand_core::Error);

#[verifier::external_type_specification]
pub struct ExOsRng(rand::rngs::OsRng);

} // mod th_rng
