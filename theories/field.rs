// T-field / subtle / T-rng (ASSUMED; DESIGN.md section 4): the interface of the ff_derive-generated
// field `Fp`, of subtle::{CtOption, Choice}, and of rand's RNG traits, as seen by the glue code.
pub mod th_field {
use super::*;
use super::verif_std::*;
use real_sharks::{Fp, FpRepr};
use subtle::{CtOption, Choice};
use ff::{Field, PrimeField};
use rand::RngCore;

#[verifier::external_type_specification]
#[verifier::external_body]
pub struct ExFp(Fp);

#[verifier::external_type_specification]
pub struct ExFpRepr(FpRepr);

#[verifier::external_type_specification]
#[verifier::external_body]
#[verifier::reject_recursive_types(T)]
pub struct ExCtOption<T>(CtOption<T>);

#[verifier::external_type_specification]
#[verifier::external_body]
pub struct ExChoice(Choice);

/// the modulus 2^128 + 12451
pub open spec fn P() -> int { 340282366920938463463374607431768223907int }

/// value of a field element as an integer in [0, P)
pub uninterp spec fn fv(f: Fp) -> int;
pub broadcast axiom fn ax_fv_range(f: Fp) ensures 0 <= #[trigger] fv(f) < P();
/// an element is determined by its value (Fp's PartialEq / structural equality on canonical residues)
pub broadcast axiom fn ax_fv_inj(a: Fp, b: Fp) requires #[trigger] fv(a) == #[trigger] fv(b) ensures a == b;

pub uninterp spec fn ct_opt<T>(c: CtOption<T>) -> Option<T>;
pub uninterp spec fn choice_bool(c: Choice) -> bool;

pub assume_specification<T>[CtOption::<T>::is_none](c: &CtOption<T>) -> (r: Choice)
    ensures choice_bool(r) == ct_opt(*c).is_none();
pub assume_specification<T>[CtOption::<T>::is_some](c: &CtOption<T>) -> (r: Choice)
    ensures choice_bool(r) == ct_opt(*c).is_some();
pub assume_specification<T>[CtOption::<T>::unwrap](c: CtOption<T>) -> (r: T)
    requires ct_opt(c).is_some()
    ensures Some(r) == ct_opt(c);
pub assume_specification[<bool as From<Choice>>::from](c: Choice) -> (r: bool)
    ensures r == choice_bool(c);
pub assume_specification<T>[<Option<T> as From<CtOption<T>>>::from](c: CtOption<T>) -> (r: Option<T>)
    ensures r == ct_opt(c);

/// canonical decoding: accepted iff the little-endian integer is below the modulus
pub assume_specification[<Fp as PrimeField>::from_repr](r: FpRepr) -> (o: CtOption<Fp>)
    ensures
        ct_opt(o).is_some() <==> le_int(r.0@) < P(),
        ct_opt(o).is_some() ==> fv(ct_opt(o).unwrap()) == le_int(r.0@);

/// 24-byte little-endian encoding of the value
pub open spec fn repr(f: Fp) -> Seq<u8> { le_bytes(fv(f), 24) }
pub assume_specification[<Fp as PrimeField>::to_repr](f: &Fp) -> (r: FpRepr)
    ensures r.0@ == repr(*f);

/// the byte view of an encoding (ff_derive: `impl AsRef<[u8]> for FpRepr { &self.0 }`)
pub assume_specification[<FpRepr as core::convert::AsRef<[u8]>>::as_ref](r: &FpRepr) -> (o: &[u8])
    ensures o@ == r.0@;

pub assume_specification[<Fp as Field>::is_zero_vartime](f: &Fp) -> (r: bool)
    ensures r == (fv(*f) == 0);

pub assume_specification[<Fp as Clone>::clone](f: &Fp) -> (r: Fp)
    ensures r == *f;

// ---- T-rng.  An RNG of type R is *deterministic* (det_rng) when every draw is a function of its
// state; this is asserted for StrobeRng only.  Nothing is assumed about OsRng draws.
pub uninterp spec fn det_rng<R>() -> bool;
/// (element drawn, next RNG state) for a deterministic RNG
pub uninterp spec fn fp_draw<R>(pre: R) -> (Fp, R);
pub uninterp spec fn fp_random_post<R>(rng: R, r: Fp) -> bool;

/// provenance marker: true only of values returned by `Fp::random` called with an RNG argument of type R
pub uninterp spec fn fp_drawn_from<R>(r: Fp) -> bool;
pub assume_specification<R: RngCore>[<Fp as Field>::random](rng: R) -> (r: Fp)
    ensures fp_random_post::<R>(rng, r), fp_drawn_from::<R>(r);

pub broadcast axiom fn ax_fp_random_mutref<R: RngCore>(rng: &mut R, r: Fp)
    ensures (#[trigger] fp_random_post::<&mut R>(rng, r) && det_rng::<R>())
        ==> (r, *final(rng)) == fp_draw::<R>(*old(rng));

// ---- ring operations of the field as seen by the glue code (T-field).  add/sub/neg are discharged on the
// Montgomery residues by the complete Kani harnesses k_fp_add / k_fp_sub / k_fp_neg; multiplication is ASSUMED.
pub open spec fn f_add(a: int, b: int) -> int { (a + b) % P() }
pub open spec fn f_mul(a: int, b: int) -> int { (a * b) % P() }
pub assume_specification[<Fp as core::ops::Mul<Fp>>::mul](a: Fp, b: Fp) -> (r: Fp)
    ensures fv(r) == f_mul(fv(a), fv(b));
pub assume_specification<'b>[<Fp as core::ops::Add<&'b Fp>>::add](a: Fp, b: &Fp) -> (r: Fp)
    ensures fv(r) == f_add(fv(a), fv(*b));
pub assume_specification[<Fp as core::ops::Add<Fp>>::add](a: Fp, b: Fp) -> (r: Fp)
    ensures fv(r) == f_add(fv(a), fv(b));
pub assume_specification[<Fp as core::ops::AddAssign<Fp>>::add_assign](a: &mut Fp, b: Fp)
    ensures fv(*final(a)) == f_add(fv(*old(a)), fv(b));
/// equality of field elements is equality of the integers they stand for (ct_eq over the canonical encodings)
pub assume_specification[<Fp as core::cmp::PartialEq<Fp>>::eq](a: &Fp, b: &Fp) -> (r: bool)
    ensures r == (fv(*a) == fv(*b));
pub open spec fn f_sub(a: int, b: int) -> int { (a - b) % P() }
pub assume_specification[<Fp as core::ops::Sub<Fp>>::sub](a: Fp, b: Fp) -> (r: Fp)
    ensures fv(r) == f_sub(fv(a), fv(b));
pub broadcast axiom fn ax_req_fp_sub(a: Fp, b: Fp) ensures #[trigger] <Fp as vstd::std_specs::ops::SubSpec<Fp>>::sub_req(a, b);
/// multiplicative inverse (T-field, ASSUMED: Fermat exponentiation inside ff_derive): defined exactly for non-zero
/// elements, and then inv * a == 1; the flag half (Some iff non-zero) is discharged by the Kani harness of C07
pub assume_specification[<Fp as Field>::invert](a: &Fp) -> (r: CtOption<Fp>)
    ensures
        ct_opt(r).is_some() <==> fv(*a) != 0,
        ct_opt(r).is_some() ==> fv(ct_opt(r).unwrap()) == finv(fv(*a));
/// multiplicative inverse mod P (exists for non-zero because P is prime)
pub uninterp spec fn finv(a: int) -> int;
pub broadcast axiom fn ax_finv(a: int)
    requires 0 < a < P()
    ensures 0 < #[trigger] finv(a) < P(), f_mul(a, finv(a)) == 1;
/// the element encoder of the real crate (`impl From<Fp> for Vec<u8>` = the 24 bytes of to_repr); discharged for all
/// elements by the complete Kani harness k_vec_from_fp
pub assume_specification[<Vec<u8> as From<Fp>>::from](f: Fp) -> (r: Vec<u8>)
    ensures r@ == repr(f);
pub broadcast axiom fn ax_req_fp_mul(a: Fp, b: Fp) ensures #[trigger] <Fp as vstd::std_specs::ops::MulSpec<Fp>>::mul_req(a, b);
pub broadcast axiom fn ax_req_fp_add_ref<'b>(a: Fp, b: &'b Fp) ensures #[trigger] <Fp as vstd::std_specs::ops::AddSpec<&'b Fp>>::add_req(a, b);
pub broadcast axiom fn ax_req_fp_add(a: Fp, b: Fp) ensures #[trigger] <Fp as vstd::std_specs::ops::AddSpec<Fp>>::add_req(a, b);

/// N9 wrappers: the body IS the original expression (an associated const of the external type)
#[verifier::external_body]
pub fn v_fp_zero() -> (r: Fp) ensures fv(r) == 0 { Fp::ZERO }
#[verifier::external_body]
pub fn v_fp_one() -> (r: Fp) ensures fv(r) == 1 { Fp::ONE }

/// a `Vec<Fp>` occupies at most isize::MAX bytes (Rust allocation rule; an element is three u64 limbs = 24 bytes)
pub axiom fn ax_fp_vec_len_bound(v: &Vec<Fp>)
    ensures v@.len() * 24 <= isize::MAX;

pub broadcast group group_field { ax_fv_range, ax_fp_random_mutref, ax_req_fp_mul, ax_req_fp_add_ref, ax_req_fp_add, ax_req_fp_sub }

} // mod th_field
