// T-group (ASSUMED; DESIGN.md section 4): curve25519-dalek's ristretto255 group and its scalar
// field as an abstract module over a field.  Spec equality on the opaque types stands for group /
// field equality (what `==`, compress and ct_eq observe).
pub mod th_group {
use super::*;
use curve25519_dalek::ristretto::{CompressedRistretto, RistrettoPoint};
use curve25519_dalek::scalar::Scalar;
use curve25519_dalek::constants::RISTRETTO_BASEPOINT_POINT;
use curve25519_dalek::traits::Identity;
use core::ops::{Add, Mul, Sub};
use vstd::std_specs::ops::{AddSpec, MulSpec, SubSpec};

#[verifier::external_type_specification] #[verifier::external_body] pub struct ExScalar(Scalar);
#[verifier::external_type_specification] #[verifier::external_body] pub struct ExRistrettoPoint(RistrettoPoint);
#[verifier::external_type_specification] #[verifier::external_body] pub struct ExCompressedRistretto(CompressedRistretto);

// ---- scalar field
pub uninterp spec fn szero() -> Scalar;
pub uninterp spec fn sone() -> Scalar;
pub uninterp spec fn sadd(a: Scalar, b: Scalar) -> Scalar;
pub uninterp spec fn ssub(a: Scalar, b: Scalar) -> Scalar;
pub uninterp spec fn smul(a: Scalar, b: Scalar) -> Scalar;
pub uninterp spec fn sinv(a: Scalar) -> Scalar;
// ---- group
pub uninterp spec fn pid() -> RistrettoPoint;
pub uninterp spec fn base() -> RistrettoPoint;
pub uninterp spec fn padd(a: RistrettoPoint, b: RistrettoPoint) -> RistrettoPoint;
pub uninterp spec fn pmul(s: Scalar, p: RistrettoPoint) -> RistrettoPoint;
// ---- encodings
pub uninterp spec fn comp(p: RistrettoPoint) -> CompressedRistretto;
pub uninterp spec fn decomp(c: CompressedRistretto) -> Option<RistrettoPoint>;
pub uninterp spec fn cr_bytes(c: CompressedRistretto) -> Seq<u8>;
pub uninterp spec fn cr_of(b: Seq<u8>) -> CompressedRistretto;
pub uninterp spec fn scalar_mod_order(b: Seq<u8>) -> Scalar;
pub uninterp spec fn scalar_mod_order_wide(b: Seq<u8>) -> Scalar;
pub uninterp spec fn point_from_uniform(b: Seq<u8>) -> RistrettoPoint;

// field / module laws (only the ones the lemmas use)
pub broadcast axiom fn ax_sadd_comm(a: Scalar, b: Scalar) ensures #[trigger] sadd(a, b) == sadd(b, a);
pub broadcast axiom fn ax_smul_comm(a: Scalar, b: Scalar) ensures #[trigger] smul(a, b) == smul(b, a);
pub broadcast axiom fn ax_smul_assoc(a: Scalar, b: Scalar, c: Scalar) ensures #[trigger] smul(smul(a, b), c) == smul(a, smul(b, c));
pub broadcast axiom fn ax_smul_one(a: Scalar) ensures #[trigger] smul(sone(), a) == a;
pub broadcast axiom fn ax_sinv(a: Scalar) requires a != szero() ensures smul(#[trigger] sinv(a), a) == sone();
pub broadcast axiom fn ax_ssub_add(a: Scalar, b: Scalar) ensures sadd(#[trigger] ssub(a, b), b) == a;
pub broadcast axiom fn ax_pmul_one(p: RistrettoPoint) ensures #[trigger] pmul(sone(), p) == p;
pub broadcast axiom fn ax_pmul_pmul(a: Scalar, b: Scalar, p: RistrettoPoint) ensures #[trigger] pmul(a, pmul(b, p)) == pmul(smul(a, b), p);
pub broadcast axiom fn ax_pmul_sadd(a: Scalar, b: Scalar, p: RistrettoPoint) ensures #[trigger] padd(pmul(a, p), pmul(b, p)) == pmul(sadd(a, b), p);
pub broadcast axiom fn ax_pmul_padd(a: Scalar, p: RistrettoPoint, q: RistrettoPoint) ensures #[trigger] pmul(a, padd(p, q)) == padd(pmul(a, p), pmul(a, q));
pub broadcast axiom fn ax_padd_id(p: RistrettoPoint) ensures #[trigger] padd(p, pid()) == p;
pub broadcast axiom fn ax_pmul_id(a: Scalar) ensures #[trigger] pmul(a, pid()) == pid();
pub broadcast axiom fn ax_decomp_comp(p: RistrettoPoint) ensures #[trigger] decomp(comp(p)) == Some(p);
pub broadcast axiom fn ax_comp_decomp(c: CompressedRistretto) requires decomp(c).is_some() ensures comp(#[trigger] decomp(c).unwrap()) == c;
pub broadcast axiom fn ax_cr_bytes(c: CompressedRistretto) ensures (#[trigger] cr_bytes(c)).len() == 32, cr_of(cr_bytes(c)) == c;
pub broadcast axiom fn ax_cr_of(b: Seq<u8>) requires b.len() == 32 ensures cr_bytes(#[trigger] cr_of(b)) == b;

pub broadcast group group_alg {
    ax_sadd_comm, ax_smul_comm, ax_smul_assoc, ax_smul_one, ax_sinv, ax_ssub_add, ax_pmul_one, ax_pmul_pmul,
    ax_pmul_sadd, ax_pmul_padd, ax_padd_id, ax_pmul_id,
}
pub broadcast group group_enc { ax_decomp_comp, ax_comp_decomp, ax_cr_bytes, ax_cr_of }

// ---- operator impls (every by-value / by-reference variant the repository uses)
pub assume_specification[<Scalar as Mul<RistrettoPoint>>::mul](a: Scalar, b: RistrettoPoint) -> (r: RistrettoPoint)
    ensures r == pmul(a, b);
pub assume_specification<'b>[<Scalar as Mul<&'b RistrettoPoint>>::mul](a: Scalar, b: &'b RistrettoPoint) -> (r: RistrettoPoint)
    ensures r == pmul(a, *b);
pub assume_specification<'b>[<Scalar as Mul<&'b Scalar>>::mul](a: Scalar, b: &'b Scalar) -> (r: Scalar)
    ensures r == smul(a, *b);
pub assume_specification[<Scalar as Mul<Scalar>>::mul](a: Scalar, b: Scalar) -> (r: Scalar)
    ensures r == smul(a, b);
pub assume_specification[<Scalar as Add<Scalar>>::add](a: Scalar, b: Scalar) -> (r: Scalar)
    ensures r == sadd(a, b);
pub assume_specification[<Scalar as Sub<Scalar>>::sub](a: Scalar, b: Scalar) -> (r: Scalar)
    ensures r == ssub(a, b);
pub assume_specification[<RistrettoPoint as Add<RistrettoPoint>>::add](a: RistrettoPoint, b: RistrettoPoint) -> (r: RistrettoPoint)
    ensures r == padd(a, b);
pub assume_specification[<Scalar as PartialEq>::eq](a: &Scalar, b: &Scalar) -> (r: bool)
    ensures r == (*a == *b);

pub broadcast axiom fn ax_req_mul_sp(a: Scalar, b: RistrettoPoint) ensures #[trigger] <Scalar as MulSpec<RistrettoPoint>>::mul_req(a, b);
pub broadcast axiom fn ax_req_mul_spr<'b>(a: Scalar, b: &'b RistrettoPoint) ensures #[trigger] <Scalar as MulSpec<&'b RistrettoPoint>>::mul_req(a, b);
pub broadcast axiom fn ax_req_mul_ssr<'b>(a: Scalar, b: &'b Scalar) ensures #[trigger] <Scalar as MulSpec<&'b Scalar>>::mul_req(a, b);
pub broadcast axiom fn ax_req_mul_ss(a: Scalar, b: Scalar) ensures #[trigger] <Scalar as MulSpec<Scalar>>::mul_req(a, b);
pub broadcast axiom fn ax_req_add_ss(a: Scalar, b: Scalar) ensures #[trigger] <Scalar as AddSpec<Scalar>>::add_req(a, b);
pub broadcast axiom fn ax_req_sub_ss(a: Scalar, b: Scalar) ensures #[trigger] <Scalar as SubSpec<Scalar>>::sub_req(a, b);
pub broadcast axiom fn ax_req_add_pp(a: RistrettoPoint, b: RistrettoPoint) ensures #[trigger] <RistrettoPoint as AddSpec<RistrettoPoint>>::add_req(a, b);
pub broadcast group group_ops { ax_req_mul_sp, ax_req_mul_spr, ax_req_mul_ssr, ax_req_mul_ss, ax_req_add_ss, ax_req_sub_ss, ax_req_add_pp }

pub assume_specification[Scalar::invert](a: &Scalar) -> (r: Scalar)
    ensures r == sinv(*a);
pub assume_specification[Scalar::from_bytes_mod_order](b: [u8; 32]) -> (r: Scalar)
    ensures r == scalar_mod_order(b@);
pub assume_specification[Scalar::from_bytes_mod_order_wide](b: &[u8; 64]) -> (r: Scalar)
    ensures r == scalar_mod_order_wide(b@);
/// provenance marker: true only of values returned by `Scalar::random::<R>` (no axiom establishes it
/// otherwise), so a contract can pin WHICH random source a nonce or blinding scalar comes from
pub uninterp spec fn scalar_drawn_from<R: ?Sized>(r: Scalar) -> bool;
/// a fresh draw: nothing is assumed about the value (in particular not that it is non-zero)
pub assume_specification<R: rand_core::CryptoRngCore + ?Sized>[Scalar::random::<R>](rng: &mut R) -> (r: Scalar)
    ensures scalar_drawn_from::<R>(r);
pub uninterp spec fn scalar_bytes(s: Scalar) -> Seq<u8>;
pub assume_specification[Scalar::as_bytes](s: &Scalar) -> (r: &[u8; 32])
    ensures r@ == scalar_bytes(*s);

pub assume_specification[RistrettoPoint::compress](p: &RistrettoPoint) -> (r: CompressedRistretto)
    ensures r == comp(*p);
pub assume_specification[RistrettoPoint::from_uniform_bytes](b: &[u8; 64]) -> (r: RistrettoPoint)
    ensures r == point_from_uniform(b@);
pub assume_specification[<RistrettoPoint as Identity>::identity]() -> (r: RistrettoPoint)
    ensures r == pid();
pub assume_specification[CompressedRistretto::decompress](c: &CompressedRistretto) -> (r: Option<RistrettoPoint>)
    ensures r == decomp(*c);
pub assume_specification[CompressedRistretto::as_bytes](c: &CompressedRistretto) -> (r: &[u8; 32])
    ensures r@ == cr_bytes(*c);
pub assume_specification[CompressedRistretto::from_slice](b: &[u8]) -> (r: Result<CompressedRistretto, core::array::TryFromSliceError>)
    ensures r.is_ok() <==> b@.len() == 32, r matches Ok(c) ==> c == cr_of(b@);
pub assume_specification[<CompressedRistretto as Clone>::clone](c: &CompressedRistretto) -> (r: CompressedRistretto)
    ensures r == *c;

#[verifier::external_fn_specification]
pub fn ex_ristretto_basepoint() -> (r: RistrettoPoint)
    ensures r == base()
{ RISTRETTO_BASEPOINT_POINT }

} // mod th_group
