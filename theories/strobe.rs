// T-strobe: symbolic STROBE (ASSUMED; DESIGN.md section 4).  The abstract state of a Strobe
// object is the *history of operations* applied to it (a free term algebra): determinism (S1)
// is built in because every output is a spec function of (state, input); the constructors of
// `ST` being injective with disjoint ranges is the ideal-hash idealisation S5 for states.
pub mod th_strobe {
use super::*;
use strobe_rs::{Strobe, SecParam, AuthError};

#[verifier::external_type_specification]
#[verifier::external_body]
pub struct ExStrobe(Strobe);

#[verifier::external_type_specification]
pub struct ExSecParam(SecParam);

#[verifier::external_type_specification]
#[verifier::external_body]
pub struct ExAuthError(AuthError);

pub enum ST {
    New(Seq<u8>),
    New256(Seq<u8>),
    Ad(Box<ST>, Seq<u8>),
    MetaAd(Box<ST>, Seq<u8>),
    Key(Box<ST>, Seq<u8>),
    Prf(Box<ST>, nat),
    Mac(Box<ST>, nat),
    /// after send_enc / recv_enc: the duplex absorbed the CIPHERTEXT
    Enc(Box<ST>, Seq<u8>),
}

pub uninterp spec fn st(s: Strobe) -> ST;
/// S1 extensionality: a Strobe object is determined by its history
pub uninterp spec fn strobe_of(s: ST) -> Strobe;
pub broadcast axiom fn ax_st_strobe_of(s: ST) ensures #[trigger] st(strobe_of(s)) == s;
pub broadcast axiom fn ax_strobe_of_st(x: Strobe) ensures strobe_of(#[trigger] st(x)) == x;
pub uninterp spec fn prf_out(s: ST, n: nat) -> Seq<u8>;
pub uninterp spec fn mac_out(s: ST, n: nat) -> Seq<u8>;
pub uninterp spec fn enc_out(s: ST, m: Seq<u8>) -> Seq<u8>;
pub uninterp spec fn dec_out(s: ST, c: Seq<u8>) -> Seq<u8>;

pub open spec fn s_new(label: Seq<u8>) -> ST { ST::New(label) }
pub open spec fn s_ad(s: ST, d: Seq<u8>) -> ST { ST::Ad(Box::new(s), d) }
pub open spec fn s_meta_ad(s: ST, d: Seq<u8>) -> ST { ST::MetaAd(Box::new(s), d) }
pub open spec fn s_key(s: ST, d: Seq<u8>) -> ST { ST::Key(Box::new(s), d) }
pub open spec fn s_prf(s: ST, n: nat) -> ST { ST::Prf(Box::new(s), n) }
pub open spec fn s_mac(s: ST, n: nat) -> ST { ST::Mac(Box::new(s), n) }
pub open spec fn s_enc(s: ST, c: Seq<u8>) -> ST { ST::Enc(Box::new(s), c) }

// output lengths
pub broadcast axiom fn ax_prf_len(s: ST, n: nat) ensures #[trigger] prf_out(s, n).len() == n;
pub broadcast axiom fn ax_mac_len(s: ST, n: nat) ensures #[trigger] mac_out(s, n).len() == n;
pub broadcast axiom fn ax_enc_len(s: ST, m: Seq<u8>) ensures #[trigger] enc_out(s, m).len() == m.len();
pub broadcast axiom fn ax_dec_len(s: ST, c: Seq<u8>) ensures #[trigger] dec_out(s, c).len() == c.len();
// S2 duplex inverse
pub broadcast axiom fn ax_dec_enc(s: ST, m: Seq<u8>) ensures #[trigger] dec_out(s, enc_out(s, m)) == m;
pub broadcast axiom fn ax_enc_dec(s: ST, c: Seq<u8>) ensures #[trigger] enc_out(s, dec_out(s, c)) == c;

pub broadcast group group_strobe { ax_st_strobe_of, ax_strobe_of_st, ax_prf_len, ax_mac_len, ax_enc_len, ax_dec_len, ax_dec_enc, ax_enc_dec }

// S4 (first-block stream structure): an encryption issued directly after a completed operation XORs
// the first <= 166 bytes (rate of Strobe-128/1600) with bytes that depend on the state only.
// Used ONLY to derive the C03 refutation; smoke-tested against strobe-rs by the native replay.
pub uninterp spec fn keystream(s: ST) -> Seq<u8>;
pub broadcast axiom fn ax_s4(s: ST, m: Seq<u8>, i: int)
    requires 0 <= i < m.len(), i < 166
    ensures keystream(s).len() == 166, #[trigger] enc_out(s, m)[i] == m[i] ^ keystream(s)[i];

// S5 (ideal hash) for OUTPUTS: used only by the "different => different / rejected" lemmas,
// never by a function contract.
pub broadcast axiom fn ax_s5_prf(s1: ST, s2: ST, n: nat)
    requires n >= 16, #[trigger] prf_out(s1, n) == #[trigger] prf_out(s2, n)
    ensures s1 == s2;
pub broadcast axiom fn ax_s5_mac(s1: ST, s2: ST, n: nat)
    requires n >= 16, #[trigger] mac_out(s1, n) == #[trigger] mac_out(s2, n)
    ensures s1 == s2;
/// a 128-bit prefix of an (at least 16-byte) PRF output already determines the state
pub broadcast axiom fn ax_s5_prf_prefix(s1: ST, s2: ST, n: nat)
    requires n >= 16, #[trigger] prf_out(s1, n).subrange(0, 16) == #[trigger] prf_out(s2, n).subrange(0, 16)
    ensures s1 == s2;
pub broadcast group group_s5 { ax_s5_prf, ax_s5_mac }

pub assume_specification[Strobe::new](proto: &[u8], sec: SecParam) -> (r: Strobe)
    ensures st(r) == (match sec { SecParam::B128 => ST::New(proto@), SecParam::B256 => ST::New256(proto@) });

pub assume_specification[<Strobe as Clone>::clone](s: &Strobe) -> (r: Strobe)
    ensures st(r) == st(*s);

pub assume_specification[Strobe::ad](s: &mut Strobe, data: &[u8], more: bool)
    requires !more
    ensures st(*final(s)) == s_ad(st(*old(s)), data@);

pub assume_specification[Strobe::meta_ad](s: &mut Strobe, data: &[u8], more: bool)
    requires !more
    ensures st(*final(s)) == s_meta_ad(st(*old(s)), data@);

pub assume_specification[Strobe::key](s: &mut Strobe, data: &[u8], more: bool)
    requires !more
    ensures st(*final(s)) == s_key(st(*old(s)), data@);

pub assume_specification[Strobe::prf](s: &mut Strobe, data: &mut [u8], more: bool)
    requires !more
    ensures
        final(data)@ == prf_out(st(*old(s)), old(data)@.len()),
        st(*final(s)) == s_prf(st(*old(s)), old(data)@.len());

pub assume_specification[Strobe::send_mac](s: &mut Strobe, data: &mut [u8], more: bool)
    requires !more
    ensures
        final(data)@ == mac_out(st(*old(s)), old(data)@.len()),
        st(*final(s)) == s_mac(st(*old(s)), old(data)@.len());

pub assume_specification[Strobe::send_enc](s: &mut Strobe, data: &mut [u8], more: bool)
    requires !more
    ensures
        final(data)@ == enc_out(st(*old(s)), old(data)@),
        st(*final(s)) == s_enc(st(*old(s)), final(data)@);

pub assume_specification[Strobe::recv_enc](s: &mut Strobe, data: &mut [u8], more: bool)
    requires !more
    ensures
        final(data)@ == dec_out(st(*old(s)), old(data)@),
        st(*final(s)) == s_enc(st(*old(s)), old(data)@);

// S3: the MAC check accepts exactly the MAC the sender would have produced in this state
pub assume_specification<const N: usize>[Strobe::recv_mac::<N>](s: &mut Strobe, mac: &[u8; N]) -> (r: Result<(), AuthError>)
    ensures r.is_ok() <==> mac@ == mac_out(st(*old(s)), N as nat);

} // mod th_strobe
