// T-std: contracts for std items vstd does not cover, and the N2/N3/N4/N5 wrappers.
// Everything in this module is ASSUMED (trusted base), see DESIGN.md section 4.
pub mod verif_std {
use super::*;

// ---- integers <-> little-endian bytes (textbook definitions)
/// little-endian integer value of a byte string
pub open spec fn le_int(b: Seq<u8>) -> int
    decreases b.len()
{
    if b.len() == 0 { 0 } else { b[0] as int + 256 * le_int(b.subrange(1, b.len() as int)) }
}

/// n-byte little-endian encoding of an integer
pub open spec fn le_bytes(v: int, n: nat) -> Seq<u8>
    decreases n
{
    if n == 0 { Seq::<u8>::empty() } else { seq![(v % 256) as u8] + le_bytes(v / 256, (n - 1) as nat) }
}
pub broadcast proof fn lemma_le_int_nonneg(b: Seq<u8>)
    ensures #[trigger] le_int(b) >= 0
    decreases b.len()
{
    if b.len() > 0 { lemma_le_int_nonneg(b.subrange(1, b.len() as int)); }
}

// ---- iterator views used by Vec::extend / generic IntoIterator arguments
pub uninterp spec fn iter_seq<T, I>(i: I) -> Seq<T>;

pub broadcast axiom fn iter_seq_array<T, const N: usize>(a: [T; N])
    ensures #[trigger] iter_seq::<T, [T; N]>(a) == a@;
pub broadcast axiom fn iter_seq_slice<'a, T>(a: &'a [T])
    ensures #[trigger] iter_seq::<T, &'a [T]>(a) == a@;
pub broadcast axiom fn iter_seq_vec<T>(a: Vec<T>)
    ensures #[trigger] iter_seq::<T, Vec<T>>(a) == a@;
pub broadcast axiom fn iter_seq_vec_ref<'a, T>(a: &'a Vec<T>)
    ensures #[trigger] iter_seq::<T, &'a Vec<T>>(a) == a@;
pub broadcast axiom fn iter_seq_array_ref<'a, T, const N: usize>(a: &'a [T; N])
    ensures #[trigger] iter_seq::<T, &'a [T; N]>(a) == a@;

/// a Rust slice never has more than usize::MAX elements (vstd only learns this from an exec `.len()` call)
pub broadcast axiom fn ax_slice_len_bound<T>(s: &[T])
    ensures #[trigger] s@.len() <= usize::MAX;

/// a byte slice occupies at most isize::MAX bytes (Rust allocation rule)
pub broadcast axiom fn ax_u8_slice_len_bound(s: &[u8])
    ensures #[trigger] s@.len() <= isize::MAX;

/// T-std: `Iterator::fold` on a slice iterator is the left fold of the closure over the remaining items: there is
/// a chain of accumulators accs[0] = init, accs[i+1] = f(accs[i], item i), and the result is the last one.
pub open spec fn fold_chain<'a, T: 'a, B, F: FnMut(B, &'a T) -> B>(f: F, s: Seq<&'a T>, accs: Seq<B>) -> bool {
    accs.len() == s.len() + 1
    && forall|i: int| 0 <= i < s.len() ==> call_ensures(f, (#[trigger] accs[i], s[i]), accs[i + 1])
}
pub assume_specification<'a, T, B, F>[<core::slice::Iter<'a, T> as Iterator>::fold](it: core::slice::Iter<'a, T>, init: B, f: F) -> (r: B)
    where F: FnMut(B, &'a T) -> B
    requires
        forall|b: B, i: int| 0 <= i < vstd::std_specs::iter::IteratorSpec::remaining(&it).len() ==> #[trigger] call_requires(f, (b, vstd::std_specs::iter::IteratorSpec::remaining(&it)[i])),
    ensures
        exists|accs: Seq<B>| accs[0] == init && #[trigger] fold_chain(f, vstd::std_specs::iter::IteratorSpec::remaining(&it), accs) && r == accs.last();

/// T-std: `Iterator::fold` on `Map<I, F>` (Map overrides fold): left fold of `g` over the values the map will yield
/// (vstd's prophetic `remaining()`); since fold returns, the iterator was exhausted (`will_return_none`).
pub open spec fn fold_chain_v<B, Acc, G: FnMut(Acc, B) -> Acc>(g: G, s: Seq<B>, accs: Seq<Acc>) -> bool {
    accs.len() == s.len() + 1
    && forall|i: int| 0 <= i < s.len() ==> call_ensures(g, (#[trigger] accs[i], s[i]), accs[i + 1])
}
pub assume_specification<B, I: Iterator, F: FnMut(I::Item) -> B, Acc, G: FnMut(Acc, B) -> Acc>[<core::iter::Map<I, F> as Iterator>::fold](it: core::iter::Map<I, F>, init: Acc, g: G) -> (r: Acc)
    requires
        forall|a: Acc, i: int| 0 <= i < vstd::std_specs::iter::IteratorSpec::remaining(&it).len()
            ==> #[trigger] call_requires(g, (a, vstd::std_specs::iter::IteratorSpec::remaining(&it)[i])),
    ensures
        vstd::std_specs::iter::IteratorSpec::will_return_none(&it),
        exists|accs: Seq<Acc>| accs[0] == init && #[trigger] fold_chain_v(g, vstd::std_specs::iter::IteratorSpec::remaining(&it), accs) && r == accs.last();

/// T-std: `[V].concat()` (slice concatenation; the `Concat` trait is unstable, hence the feature gates of the unit):
/// generic postcondition `concat_post`, specialised for slices of byte vectors = concatenation in order
#[verifier::external_trait_specification]
pub trait ExConcat<Item: ?Sized> {
    type ExternalTraitSpecificationFor: std::slice::Concat<Item>;
    type Output;
}
pub open spec fn flat(s: Seq<Vec<u8>>) -> Seq<u8>
    decreases s.len()
{
    if s.len() == 0 { Seq::empty() } else { flat(s.drop_last()) + s.last()@ }
}
pub uninterp spec fn concat_post<T, Item: ?Sized>(s: &[T], r: <[T] as std::slice::Concat<Item>>::Output) -> bool where [T]: std::slice::Concat<Item>;
pub assume_specification<T, Item>[<[T]>::concat](s: &[T]) -> (r: <[T] as std::slice::Concat<Item>>::Output)
    where Item: core::marker::MetaSized + ?Sized, [T]: std::slice::Concat<Item>
    ensures concat_post::<T, Item>(s, r);
pub broadcast axiom fn ax_concat_vec_u8(s: &[Vec<u8>], r: Vec<u8>)
    ensures #[trigger] concat_post::<Vec<u8>, u8>(s, r) ==> r@ == flat(s@);
pub broadcast proof fn lemma_flat2(s: Seq<Vec<u8>>)
    requires s.len() == 2
    ensures #[trigger] flat(s) == s[0]@ + s[1]@
{
    reveal_with_fuel(flat, 3);
    assert(s.drop_last().drop_last().len() == 0);
    assert(flat(s) =~= s[0]@ + s[1]@);
}

/// T-std: `Vec<u8>` as an ordered-collection key.  std's `Ord for Vec<u8>` is the lexicographic order on the
/// contents, so two keys compare Equal exactly when their contents are equal; in the specification language a
/// `Vec<u8>` value is identified with its contents (extensionality).  Needed by vstd's BTreeSet contracts.
pub broadcast axiom fn ax_vec_u8_ext(a: Vec<u8>, b: Vec<u8>)
    requires #[trigger] a@ == #[trigger] b@
    ensures a == b;
pub broadcast axiom fn ax_vec_u8_key_model()
    ensures #[trigger] vstd::std_specs::btree::key_obeys_cmp_spec::<Vec<u8>>();

pub broadcast group group_iter_seq {
    ax_slice_len_bound, ax_u8_slice_len_bound, lemma_le_int_nonneg,
    iter_seq_array, iter_seq_slice, iter_seq_vec, iter_seq_vec_ref, iter_seq_array_ref, ax_arr_of,
}

pub assume_specification<T, A: Allocator, I: IntoIterator<Item = T>>[<Vec<T, A> as Extend<T>>::extend::<I>](v: &mut Vec<T, A>, i: I)
    ensures final(v)@ == old(v)@ + iter_seq::<T, I>(i);

pub assume_specification<'a, T: Copy + 'a, A: Allocator, I: IntoIterator<Item = &'a T>>[<Vec<T, A> as Extend<&'a T>>::extend::<I>](v: &mut Vec<T, A>, i: I)
    ensures final(v)@ == old(v)@ + iter_seq::<T, I>(i);

pub assume_specification<T: Clone>[<[T]>::to_vec](s: &[T]) -> (r: Vec<T>)
    ensures r@ == s@;

pub assume_specification<'a, T: Clone>[<Vec<T> as From<&'a [T]>>::from](s: &[T]) -> (r: Vec<T>)
    ensures r@ == s@;

// ---- slice -> array conversion
#[verifier::external_type_specification]
#[verifier::external_body]
pub struct ExTryFromSliceError(std::array::TryFromSliceError);

// N7: `.try_into()` -> `.v_try_into()`; vstd's contract for the blanket TryInto impl is stated
// through call_ensures of an unspecified foreign try_from and is not usable here.  The wrapper's
// body IS the original call.
pub trait VTryInto<U>: Sized {
    type VE;
    spec fn v_ok(self) -> bool;
    spec fn v_val(self) -> U;
    fn v_try_into(self) -> (r: Result<U, Self::VE>)
        ensures r.is_ok() <==> self.v_ok(), r matches Ok(v) ==> v == self.v_val();
}
pub uninterp spec fn arr_of<T, const N: usize>(s: Seq<T>) -> [T; N];
pub broadcast axiom fn ax_arr_of<T, const N: usize>(s: Seq<T>)
    requires s.len() == N
    ensures (#[trigger] arr_of::<T, N>(s))@ == s;
impl<'a, T: Copy, const N: usize> VTryInto<[T; N]> for &'a [T] {
    type VE = std::array::TryFromSliceError;
    open spec fn v_ok(self) -> bool { self@.len() == N }
    open spec fn v_val(self) -> [T; N] { arr_of::<T, N>(self@) }
    #[verifier::external_body]
    fn v_try_into(self) -> (r: Result<[T; N], std::array::TryFromSliceError>) { self.try_into() }
}
impl VTryInto<u16> for usize {
    type VE = std::num::TryFromIntError;
    open spec fn v_ok(self) -> bool { self <= 0xffff }
    open spec fn v_val(self) -> u16 { self as u16 }
    #[verifier::external_body]
    fn v_try_into(self) -> (r: Result<u16, std::num::TryFromIntError>) { self.try_into() }
}

// ---- N3: integer <-> bytes (the std signatures carry an anonymous const and cannot be
// matched by assume_specification; the wrappers' bodies ARE the original calls)
pub trait VU32: Sized {
    spec fn vu32(self) -> u32;
    fn v_to_le_bytes(self) -> (r: [u8; 4])
        ensures r@ == le_bytes(self.vu32() as int, 4);
}
impl VU32 for u32 {
    open spec fn vu32(self) -> u32 { self }
    #[verifier::external_body]
    fn v_to_le_bytes(self) -> (r: [u8; 4]) { self.to_le_bytes() }
}
pub open spec fn spec_u16_to_be_bytes(x: u16) -> Seq<u8> { seq![(x >> 8) as u8, (x & 0xff) as u8] }
pub trait VU16: Sized {
    spec fn vu16(self) -> u16;
    fn v_to_be_bytes(self) -> (r: [u8; 2])
        ensures r@ == spec_u16_to_be_bytes(self.vu16());
}
impl VU16 for u16 {
    open spec fn vu16(self) -> u16 { self }
    #[verifier::external_body]
    fn v_to_be_bytes(self) -> (r: [u8; 2]) { self.to_be_bytes() }
}
#[verifier::external_body]
pub fn v_u32_from_le_bytes(b: [u8; 4]) -> (r: u32)
    ensures r as int == le_int(b@)
{ u32::from_le_bytes(b) }

pub open spec fn le32(x: u32) -> Seq<u8> { le_bytes(x as int, 4) }

// ---- String (N4 literals)
pub uninterp spec fn string_bytes(s: String) -> Seq<u8>;
pub assume_specification[String::len](s: &String) -> (r: usize)
    ensures r == string_bytes(*s).len();
pub assume_specification[String::as_bytes](s: &String) -> (r: &[u8])
    ensures r@ == string_bytes(*s);

// ---- zeroize (the repository wipes temporaries; nothing is assumed about the wiped value)
#[verifier::external_trait_specification]
pub trait ExZeroize {
    type ExternalTraitSpecificationFor: zeroize::Zeroize;
    fn zeroize(&mut self);
}

// ---- N5: every panic site is an obligation
#[verifier::external_body]
pub fn vpanic() -> !
    requires false
{ panic!() }

// ---- N2: Box<dyn Error> (Verus' trait-conflict checker rejects dyn Error); payloads are not verified
pub struct VErr;
impl<'a> From<&'a str> for VErr {
    fn from(_s: &'a str) -> VErr { VErr }
}
impl<'a> vstd::std_specs::convert::FromSpecImpl<&'a str> for VErr {
    open spec fn obeys_from_spec() -> bool { true }
    open spec fn from_spec(v: &'a str) -> Self { VErr }
}

} // mod verif_std
