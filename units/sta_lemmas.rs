// ======================================================================
// Property-level lemmas.  They talk about the CONTRACTS only (spec vocabulary of the modules
// above), never about function bodies: each shows that the contracts compose to the property.
pub mod lemmas {
use super::*;
use super::verif_std::*;
use super::layout::*;
use super::th_strobe::*;
use super::th_field::*;
use super::star_sharks::*;
use super::adss;
use super::sta_rs;
use vstd::bytes::*;
use vstd::arithmetic::power::*;
use vstd::arithmetic::div_mod::*;
use vstd::string::*;

// ---------------------------------------------------------------- integers <-> bytes
pub open spec fn pow256(n: nat) -> int
    decreases n
{
    if n == 0 { 1 } else { 256 * pow256((n - 1) as nat) }
}

pub proof fn lemma_pow256_pos(n: nat)
    ensures pow256(n) >= 1
    decreases n
{
    if n > 0 { lemma_pow256_pos((n - 1) as nat); }
}

pub proof fn lemma_le_int_bound(b: Seq<u8>)
    ensures 0 <= le_int(b) < pow256(b.len())
    decreases b.len()
{
    if b.len() > 0 {
        lemma_le_int_bound(b.subrange(1, b.len() as int));
        lemma_pow256_pos((b.len() - 1) as nat);
    }
}

/// encoding then decoding an integer that fits
pub proof fn lemma_le_int_le_bytes(v: int, n: nat)
    requires 0 <= v < pow256(n)
    ensures le_bytes(v, n).len() == n, le_int(le_bytes(v, n)) == v
    decreases n
{
    if n > 0 {
        let rest = le_bytes(v / 256, (n - 1) as nat);
        lemma_pow256_pos((n - 1) as nat);
        assert(v / 256 < pow256((n - 1) as nat)) by (nonlinear_arith)
            requires v < 256 * pow256((n - 1) as nat), 0 <= v;
        lemma_le_int_le_bytes(v / 256, (n - 1) as nat);
        let s = seq![(v % 256) as u8] + rest;
        assert(s.subrange(1, s.len() as int) =~= rest);
        assert(s[0] == (v % 256) as u8);
    }
}

pub proof fn lemma_le_bytes_len(v: int, n: nat)
    ensures le_bytes(v, n).len() == n
    decreases n
{
    if n > 0 { lemma_le_bytes_len(v / 256, (n - 1) as nat); }
}

/// decoding then re-encoding a byte string
pub proof fn lemma_le_bytes_le_int(b: Seq<u8>)
    ensures le_bytes(le_int(b), b.len()) == b
    decreases b.len()
{
    if b.len() > 0 {
        let rest = b.subrange(1, b.len() as int);
        lemma_le_bytes_le_int(rest);
        lemma_le_int_bound(rest);
        let v = le_int(b);
        assert(v == b[0] as int + 256 * le_int(rest));
        let b0 = b[0] as int;
        let r = le_int(rest);
        assert(v % 256 == b0 && v / 256 == r) by (nonlinear_arith)
            requires v == b0 + 256 * r, 0 <= b0, b0 < 256, 0 <= r;
        assert(le_bytes(v, b.len()) =~= b);
    } else {
        assert(le_bytes(le_int(b), b.len()) =~= b);
    }
}

pub proof fn lemma_pow256_4()
    ensures pow256(4) == 0x1_0000_0000
{
    assert(pow256(4) == 256 * 256 * 256 * 256) by (compute);
}
/// le32 is a 4-byte encoding whose value is x (hence injective)
pub proof fn lemma_le32(x: u32)
    ensures le32(x).len() == 4, le_int(le32(x)) == x as int
{
    lemma_pow256_4();
    lemma_le_int_le_bytes(x as int, 4);
}

// ---------------------------------------------------------------- C08: frames
pub proof fn C08_frame_roundtrip(b: Seq<u8>, rest: Seq<u8>)
    requires b.len() <= u32::MAX
    ensures
        parse_frame(frame(b) + rest) == Some(b),
        (frame(b) + rest).subrange(4 + b.len() as int, (frame(b) + rest).len() as int) == rest,
{
    let f = frame(b) + rest;
    lemma_le32(b.len() as u32);
    assert(f.subrange(0, 4) =~= le32(b.len() as u32));
    assert(f.subrange(4, 4 + b.len() as int) =~= b);
    assert(f.subrange(4 + b.len() as int, f.len() as int) =~= rest);
}

/// an accepted frame is exactly `frame(chunk)` followed by the remaining bytes
pub proof fn C08_frame_canonical(b: Seq<u8>)
    requires parse_frame(b).is_some()
    ensures
        b == frame(parse_frame(b).unwrap()) + b.subrange(4 + parse_frame(b).unwrap().len() as int, b.len() as int),
        parse_frame(b).unwrap().len() <= u32::MAX,
{
    let c = parse_frame(b).unwrap();
    let hdr = b.subrange(0, 4);
    lemma_le_bytes_le_int(hdr);
    lemma_le_int_bound(hdr);
    lemma_pow256_4();
    assert(le32(c.len() as u32) == hdr);
    assert(b =~= frame(c) + b.subrange(4 + c.len() as int, b.len() as int));
}


// ---------------------------------------------------------------- C08: adss shares
pub proof fn C08_share_roundtrip(t: u32, ss: Seq<u8>, c: Seq<u8>, d: Seq<u8>, j: Seq<u8>)
    requires ss.len() <= u32::MAX, c.len() <= u32::MAX, d.len() <= u32::MAX, j.len() == 64, ss_ok(ss)
    ensures adss::parse_share(adss::layout_share(t, ss, c, d, j)) == Some((t as int, ss, c, d, j))
{
    let b = adss::layout_share(t, ss, c, d, j);
    lemma_le32(t);
    let t3 = frame(d) + j;
    let t2 = frame(c) + t3;
    let t1 = frame(ss) + t2;
    assert(b =~= le32(t) + t1);
    assert(b.subrange(0, 4) =~= le32(t));
    let r1 = b.subrange(4, b.len() as int);
    assert(r1 =~= t1);
    C08_frame_roundtrip(ss, t2);
    let r2 = r1.subrange(4 + ss.len() as int, r1.len() as int);
    assert(r2 =~= t2);
    C08_frame_roundtrip(c, t3);
    let r3 = r2.subrange(4 + c.len() as int, r2.len() as int);
    assert(r3 =~= t3);
    C08_frame_roundtrip(d, j);
    let r4 = r3.subrange(4 + d.len() as int, r3.len() as int);
    assert(r4 =~= j);
}

/// canonical form: an accepted share encoding is exactly the layout of what the parser returns
/// (no byte of a share encoding is ignored at this level)
pub proof fn C08_share_canonical(b: Seq<u8>)
    requires adss::parse_share(b).is_some()
    ensures ({ let p = adss::parse_share(b).unwrap(); 0 <= p.0 <= u32::MAX && b == adss::layout_share(p.0 as u32, p.1, p.2, p.3, p.4) && p.4.len() == 64 && ss_ok(p.1) })
{
    let p = adss::parse_share(b).unwrap();
    let r1 = b.subrange(4, b.len() as int);
    C08_frame_canonical(r1);
    let r2 = r1.subrange(4 + p.1.len() as int, r1.len() as int);
    C08_frame_canonical(r2);
    let r3 = r2.subrange(4 + p.2.len() as int, r2.len() as int);
    C08_frame_canonical(r3);
    let r4 = r3.subrange(4 + p.3.len() as int, r3.len() as int);
    let hdr = b.subrange(0, 4);
    lemma_le_bytes_le_int(hdr);
    lemma_le_int_bound(hdr);
    lemma_pow256_4();
    assert(le32(p.0 as u32) == hdr);
    assert(b =~= hdr + r1);
    // step by step (one big extensionality query was unstable): each remainder is a frame plus the next one
    assert(r1 == frame(p.1) + r2);
    assert(r2 == frame(p.2) + r3);
    assert(r3 == frame(p.3) + r4);
    assert(r4 == p.4);
    assert(r2 =~= frame(p.2) + frame(p.3) + p.4);
    assert(r1 =~= frame(p.1) + frame(p.2) + frame(p.3) + p.4);
    assert(hdr + r1 =~= le32(p.0 as u32) + frame(p.1) + frame(p.2) + frame(p.3) + p.4);
}

// ---------------------------------------------------------------- C08: sharks shares
pub proof fn lemma_concat_repr_len(y: Seq<Fp>)
    ensures concat_repr(y).len() == 24 * y.len()
    decreases y.len()
{
    if y.len() > 0 {
        lemma_concat_repr_len(y.drop_last());
        lemma_le_bytes_len(fv(y.last()), 24);
    }
}

pub proof fn lemma_concat_repr_chunk(y: Seq<Fp>, j: int)
    requires 0 <= j < y.len()
    ensures chunk(concat_repr(y), j) == repr(y[j])
    decreases y.len()
{
    lemma_concat_repr_len(y);
    lemma_concat_repr_len(y.drop_last());
    lemma_le_bytes_len(fv(y.last()), 24);
    if j == y.len() - 1 {
        assert(chunk(concat_repr(y), j) =~= repr(y.last()));
    } else {
        lemma_concat_repr_chunk(y.drop_last(), j);
        assert(chunk(concat_repr(y), j) =~= chunk(concat_repr(y.drop_last()), j));
    }
}

pub proof fn lemma_p_lt_pow256_24()
    ensures P() < pow256(24)
{
    assert(pow256(24) == 256 * 256 * 256 * 256 * 256 * 256 * 256 * 256 * 256 * 256 * 256 * 256
        * 256 * 256 * 256 * 256 * 256 * 256 * 256 * 256 * 256 * 256 * 256 * 256) by (compute);
}

/// the encoding of a sharks share is accepted and decodes to the same values
pub proof fn C08_ss_roundtrip(x: Fp, y: Seq<Fp>)
    ensures
        ss_ok(enc_ss(x, y)),
        enc_ss(x, y).len() == 24 * (y.len() + 1),
        le_int(chunk(enc_ss(x, y), 0)) == fv(x),
        forall|j: int| 1 <= j <= y.len() ==> le_int(#[trigger] chunk(enc_ss(x, y), j)) == fv(y[j - 1]),
{
    broadcast use ax_fv_range;
    let b = enc_ss(x, y);
    lemma_p_lt_pow256_24();
    lemma_concat_repr_len(y);
    lemma_le_int_le_bytes(fv(x), 24);
    assert(chunk(b, 0) =~= repr(x));
    assert forall|j: int| 1 <= j <= y.len() implies le_int(#[trigger] chunk(b, j)) == fv(y[j - 1]) by {
        lemma_concat_repr_chunk(y, j - 1);
        assert(chunk(b, j) =~= chunk(concat_repr(y), j - 1));
        lemma_le_int_le_bytes(fv(y[j - 1]), 24);
    }
    assert forall|j: int| 0 <= j < b.len() / 24 implies elem_ok(#[trigger] chunk(b, j)) by {
        if j >= 1 { assert(le_int(chunk(b, j)) == fv(y[j - 1])); }
    }
}

/// canonical form of an accepted sharks encoding: re-encoding the decoded share gives the input
/// with the incomplete trailing element (fewer than 24 bytes) dropped, nothing else changed
pub proof fn C08_ss_canonical(sh: Share, b: Seq<u8>)
    requires ss_ok(b), ss_match(sh, b)
    ensures enc_ss(sh.x, sh.y@) == b.subrange(0, 24 * (b.len() as int / 24))
{
    let n = b.len() as int / 24;
    let e = enc_ss(sh.x, sh.y@);
    C08_ss_roundtrip(sh.x, sh.y@);
    let c = b.subrange(0, 24 * n);
    assert(e.len() == c.len());
    assert forall|j: int| 0 <= j < n implies chunk(e, j) == #[trigger] chunk(c, j) by {
        assert(chunk(c, j) =~= chunk(b, j));
        lemma_le_bytes_le_int(chunk(b, j));
        lemma_le_bytes_le_int(chunk(e, j));
        assert(le_int(chunk(e, j)) == le_int(chunk(b, j)));
    }
    assert forall|i: int| 0 <= i < e.len() implies e[i] == c[i] by {
        let j = i / 24;
        assert(chunk(e, j) == chunk(c, j));
        assert(e[i] == chunk(e, j)[i - 24 * j]);
        assert(c[i] == chunk(c, j)[i - 24 * j]);
    }
    assert(e =~= c);
}

// ---------------------------------------------------------------- C08: reports
pub proof fn C08_msg_roundtrip(ct: Seq<u8>, sb: Seq<u8>, tag: Seq<u8>)
    requires ct.len() <= u32::MAX, sb.len() <= u32::MAX, tag.len() <= u32::MAX, adss::parse_share(sb).is_some()
    ensures sta_rs::parse_msg(sta_rs::layout_msg(ct, sb, tag)) == Some((ct, sb, tag))
{
    let b = sta_rs::layout_msg(ct, sb, tag);
    let t2 = frame(tag);
    let t1 = frame(sb) + t2;
    assert(b =~= frame(ct) + t1);
    C08_frame_roundtrip(ct, t1);
    let r1 = b.subrange(4 + ct.len() as int, b.len() as int);
    assert(r1 =~= t1);
    C08_frame_roundtrip(sb, t2);
    let r2 = r1.subrange(4 + sb.len() as int, r1.len() as int);
    assert(r2 =~= t2);
    assert(t2 =~= frame(tag) + Seq::<u8>::empty());
    C08_frame_roundtrip(tag, Seq::<u8>::empty());
}

/// canonical form of an accepted report: the layout of the parsed chunks is a prefix of the input;
/// only bytes after the tag chunk are ignored
pub proof fn C08_msg_canonical(b: Seq<u8>)
    requires sta_rs::parse_msg(b).is_some()
    ensures ({
        let q = sta_rs::parse_msg(b).unwrap();
        let l = sta_rs::layout_msg(q.0, q.1, q.2);
        l.len() <= b.len() && b.subrange(0, l.len() as int) == l
    })
{
    let q = sta_rs::parse_msg(b).unwrap();
    C08_frame_canonical(b);
    let r1 = b.subrange(4 + q.0.len() as int, b.len() as int);
    C08_frame_canonical(r1);
    let r2 = r1.subrange(4 + q.1.len() as int, r1.len() as int);
    C08_frame_canonical(r2);
    let l = sta_rs::layout_msg(q.0, q.1, q.2);
    assert(b.subrange(0, l.len() as int) =~= l);
}


// ---------------------------------------------------------------- T-shamir (ASSUMED, pure mathematics)
/// Lagrange interpolation at zero through n = deg+1 points with pairwise distinct x on a polynomial
/// with n coefficients returns its constant term.  Not machine-checked here (DESIGN.md section 4).
pub axiom fn ax_shamir(coeffs: Seq<int>, xs: Seq<int>, ys: Seq<int>)
    requires
        coeffs.len() >= 1, xs.len() == coeffs.len(), ys.len() == xs.len(),
        forall|i: int| 0 <= i < coeffs.len() ==> 0 <= #[trigger] coeffs[i] < P(),
        forall|i: int| 0 <= i < xs.len() ==> 0 <= #[trigger] xs[i] < P(),
        forall|i: int, j: int| 0 <= i < j < xs.len() ==> xs[i] != xs[j],
        forall|i: int| 0 <= i < xs.len() ==> #[trigger] ys[i] == horner(coeffs, xs[i]),
    ensures lagrange0(xs, ys, xs.len() as int) == coeffs.last();

// ---------------------------------------------------------------- dedup facts
pub open spec fn has_x(sh: Seq<Share>, n: int, v: int) -> bool {
    exists|k: int| 0 <= k < n && fv(#[trigger] sh[k].x) == v
}

/// every element of dedup(sh) is an element of sh
pub proof fn lemma_dedup_subset(sh: Seq<Share>, i: int) -> (k: int)
    requires 0 <= i < dedup(sh).len()
    ensures 0 <= k < sh.len(), sh[k] == dedup(sh)[i]
    decreases sh.len()
{
    let pre = sh.drop_last();
    let d = dedup(pre);
    if i < d.len() {
        let k = lemma_dedup_subset(pre, i);
        assert(pre[k] == sh[k]);
        k
    } else {
        sh.len() - 1
    }
}

/// every x of sh occurs in dedup(sh)
pub proof fn lemma_dedup_covers(sh: Seq<Share>, k: int) -> (i: int)
    requires 0 <= k < sh.len()
    ensures 0 <= i < dedup(sh).len(), fv(dedup(sh)[i].x) == fv(sh[k].x)
    decreases sh.len()
{
    let pre = sh.drop_last();
    let d = dedup(pre);
    if k < pre.len() {
        let i = lemma_dedup_covers(pre, k);
        assert(pre[k] == sh[k]);
        i
    } else if exists|k2: int| 0 <= k2 < sh.len() - 1 && fv(#[trigger] sh[k2].x) == fv(sh.last().x) {
        let k2 = choose|k2: int| 0 <= k2 < sh.len() - 1 && fv(#[trigger] sh[k2].x) == fv(sh.last().x);
        let i = lemma_dedup_covers(pre, k2);
        assert(pre[k2] == sh[k2]);
        i
    } else {
        d.len() as int
    }
}

/// the x values of dedup(sh) are pairwise distinct
pub proof fn lemma_dedup_distinct(sh: Seq<Share>, i: int, j: int)
    requires 0 <= i < j < dedup(sh).len()
    ensures fv(dedup(sh)[i].x) != fv(dedup(sh)[j].x)
    decreases sh.len()
{
    let pre = sh.drop_last();
    let d = dedup(pre);
    if j < d.len() {
        lemma_dedup_distinct(pre, i, j);
    } else {
        // dedup(sh) == d.push(sh.last()) and sh.last() duplicates nothing in pre
        let k = lemma_dedup_subset(pre, i);
        assert(pre[k] == sh[k]);
    }
}

// ---------------------------------------------------------------- byte-level facts about the 16-byte key
pub proof fn lemma_le_int_append_zeros(a: Seq<u8>, n: nat)
    ensures le_int(a + adss::zeros(n)) == le_int(a)
    decreases a.len()
{
    let z = adss::zeros(n);
    if a.len() == 0 {
        assert(a + z =~= z);
        lemma_le_int_zeros(n);
    } else {
        let b = a + z;
        assert(b.subrange(1, b.len() as int) =~= a.subrange(1, a.len() as int) + z);
        lemma_le_int_append_zeros(a.subrange(1, a.len() as int), n);
    }
}
pub proof fn lemma_le_int_zeros(n: nat)
    ensures le_int(adss::zeros(n)) == 0
    decreases n
{
    if n > 0 {
        let z = adss::zeros(n);
        assert(z.subrange(1, z.len() as int) =~= adss::zeros((n - 1) as nat));
        lemma_le_int_zeros((n - 1) as nat);
    }
}
pub proof fn lemma_le_bytes_small(v: int, n: nat, m: nat)
    requires 0 <= v < pow256(n)
    ensures le_bytes(v, n + m) == le_bytes(v, n) + adss::zeros(m)
    decreases n
{
    if n == 0 {
        assert(v == 0);
        lemma_le_bytes_zero(m);
        assert(le_bytes(v, 0) + adss::zeros(m) =~= adss::zeros(m));
    } else {
        lemma_pow256_pos((n - 1) as nat);
        assert(v / 256 < pow256((n - 1) as nat)) by (nonlinear_arith)
            requires v < 256 * pow256((n - 1) as nat), 0 <= v;
        lemma_le_bytes_small(v / 256, (n - 1) as nat, m);
        assert(le_bytes(v, n + m) =~= le_bytes(v, n) + adss::zeros(m));
    }
}
pub proof fn lemma_le_bytes_zero(m: nat)
    ensures le_bytes(0, m) == adss::zeros(m)
    decreases m
{
    if m > 0 {
        lemma_le_bytes_zero((m - 1) as nat);
        assert(le_bytes(0, m) =~= adss::zeros(m));
    } else {
        assert(le_bytes(0, m) =~= adss::zeros(m));
    }
}
pub proof fn lemma_pow256_16_lt_p()
    ensures pow256(16) < P()
{
    assert(pow256(16) == 256 * 256 * 256 * 256 * 256 * 256 * 256 * 256 * 256 * 256 * 256 * 256
        * 256 * 256 * 256 * 256) by (compute);
}

/// the 32-byte dealer input K || 0^16 always decodes (so `share()` never fails), and its first
/// element is the integer value of K
pub proof fn lemma_kvec(K: Seq<u8>)
    requires K.len() == 16
    ensures
        secret_ok(adss::kvec(K)),
        adss::kvec(K).len() / 24 == 1,
        le_int(chunk(adss::kvec(K), 0)) == le_int(K),
        0 <= le_int(K) < P(),
        le_bytes(le_int(K), 24).subrange(0, 16) == K,
{
    let kv = adss::kvec(K);
    assert(chunk(kv, 0) =~= K + adss::zeros(8));
    lemma_le_int_append_zeros(K, 8);
    lemma_le_int_bound(K);
    lemma_pow256_16_lt_p();
    lemma_le_bytes_small(le_int(K), 16, 8);
    lemma_le_bytes_le_int(K);
    assert((K + adss::zeros(8)).subrange(0, 16) =~= K);
    assert forall|j: int| 0 <= j < kv.len() / 24 implies elem_ok(#[trigger] chunk(kv, j)) by { }
}

// ---------------------------------------------------------------- C16 / C01 core: recovery
/// coefficient values drawn for one polynomial are field values
pub proof fn lemma_draws_range<R>(st: R, n: nat)
    ensures draws::<R>(st, n).0.len() == n,
        forall|i: int| 0 <= i < n ==> 0 <= #[trigger] draws::<R>(st, n).0[i] < P(),
    decreases n
{
    broadcast use ax_fv_range;
    if n > 0 { lemma_draws_range::<R>(st, (n - 1) as nat); }
}

/// C16 (and the core of C01): for every threshold t >= 1, message and coins of any length, any
/// collection of shares of ONE sharing (t, M, R, default transcript) that contains t distinct
/// evaluation points - in any order, with duplicates and surplus - recovers exactly (M, R).
/// Uses S2 (duplex inverse) and T-shamir; no S5.
pub proof fn C16_recover(t: u32, M: Seq<u8>, R: Seq<u8>, shs: Seq<adss::Share>)
    requires
        t >= 1, shs.len() >= 1,
        forall|i: int| 0 <= i < shs.len() ==> adss::is_share_of(#[trigger] shs[i], t, M, R, s_new(b"adss"@)),
        dedup(adss::s_parts(shs)).len() >= t,
    ensures
        adss::rec_spec(shs[0], adss::s_parts(shs)) == Some((M, R)),
{
    broadcast use {group_strobe, ax_fv_range};
    let base = s_new(b"adss"@);
    let tr = adss::tr_of(t, M, R, base);
    let K = adss::K_of(tr);
    let sp = adss::s_parts(shs);
    let coeffs = adss::polys_of(t, tr)[0];
    lemma_kvec(K);
    // shape of the sharing polynomial
    let rng0 = adss::strobe_rng::StrobeRng { strobe: strobe_of(adss::L_of(tr)) };
    let d0 = deal_spec::<adss::strobe_rng::StrobeRng>(t, adss::kvec(K), 0, rng0);
    let c = draws::<adss::strobe_rng::StrobeRng>(d0.1, kk(t));
    lemma_draws_range::<adss::strobe_rng::StrobeRng>(d0.1, kk(t));
    assert(deal_spec::<adss::strobe_rng::StrobeRng>(t, adss::kvec(K), 1, rng0).0
        == d0.0.push(c.0.push(le_int(chunk(adss::kvec(K), 0)))));
    assert(coeffs == c.0.push(le_int(K)));
    assert(coeffs.len() == t);
    assert(coeffs.last() == le_int(K));
    // every share is a point on it, with one y
    assert forall|i: int| 0 <= i < sp.len() implies (#[trigger] sp[i]).y@.len() == 1
        && fv(sp[i].y@[0]) == horner(coeffs, fv(sp[i].x)) by {
        assert(adss::is_share_of(shs[i], t, M, R, base));
    }
    assert(lens_ok(sp));
    assert(recover_ok(t, sp));
    let dd = dedup(sp);
    let pts = dd.take(t as int);
    let xs = xs_of(pts);
    let ys = col(pts, 0);
    assert forall|i: int| 0 <= i < pts.len() implies (#[trigger] pts[i]).y@.len() == 1
        && fv(pts[i].y@[0]) == horner(coeffs, fv(pts[i].x)) by {
        let k = lemma_dedup_subset(sp, i);
        assert(pts[i] == sp[k]);
    }
    assert forall|i: int| 0 <= i < xs.len() implies #[trigger] ys[i] == horner(coeffs, xs[i]) by {
        assert(pts[i].y@.len() == 1);
    }
    assert forall|i: int, j: int| 0 <= i < j < xs.len() implies xs[i] != xs[j] by {
        lemma_dedup_distinct(sp, i, j);
    }
    ax_shamir(coeffs, xs, ys);
    // bytes returned by the sharks layer
    assert(dd[0].y@.len() == 1) by { assert(pts[0] == dd[0]); }
    let key = recover_bytes(t, sp);
    assert(interp_bytes(pts, 0) =~= Seq::<u8>::empty());
    assert(key =~= le_bytes(le_int(K), 24));
    lemma_le_bytes_len(le_int(K), 24);
    assert(key.subrange(0, 16) == K);
    // decrypt and authenticate
    assert(adss::is_share_of(shs[0], t, M, R, base));
}

/// C16: threshold 0 never recovers (whatever the shares)
pub proof fn C16_zero(s: adss::Share, shs: Seq<Share>)
    requires s.A.threshold == 0
    ensures adss::rec_spec(s, shs).is_none()
{
}

/// C02(a): fewer than t distinct points in the whole collection => error
pub proof fn C02_subthreshold(s: adss::Share, shs: Seq<Share>)
    requires dedup(shs).len() < s.A.threshold
    ensures adss::rec_spec(s, shs).is_none()
{
}

// ---------------------------------------------------------------- C05: authentication (uses S5 for the MAC)
/// whatever the collection is, if recovery succeeds and the first share carries the
/// authentication tag of an honest sharing (t0, M0, R0), the result is exactly (M0, R0) and the
/// threshold recorded in the first share is t0 (C02(b): a rewritten threshold is rejected).
pub proof fn C05_auth(s: adss::Share, shs: Seq<Share>, t0: u32, M0: Seq<u8>, R0: Seq<u8>)
    requires
        adss::rec_spec(s, shs).is_some(),
        s.J@ == adss::J_of(adss::tr_of(t0, M0, R0, s_new(b"adss"@))),
    ensures
        adss::rec_spec(s, shs) == Some((M0, R0)),
        s.A.threshold == t0,
{
    broadcast use group_s5;
    lemma_le32(s.A.threshold);
    lemma_le32(t0);
    let r = adss::rec_spec(s, shs).unwrap();
    let tr = adss::tr_of(s.A.threshold, r.0, r.1, s_new(b"adss"@));
    let tr0 = adss::tr_of(t0, M0, R0, s_new(b"adss"@));
    assert(adss::J_of(tr) == adss::J_of(tr0));
    assert(tr == tr0);
    assert(le32(s.A.threshold) == le32(t0));
}

/// alterations of the encrypted message / encrypted coins of the first share are rejected when the
/// interpolated key is the honest one (with any other key the MAC check above applies)
pub proof fn C05_auth_fields(s: adss::Share, shs: Seq<Share>, t0: u32, M0: Seq<u8>, R0: Seq<u8>)
    requires
        adss::rec_spec(s, shs).is_some(),
        s.J@ == adss::J_of(adss::tr_of(t0, M0, R0, s_new(b"adss"@))),
        recover_bytes(s.A.threshold, shs).subrange(0, 16) == adss::K_of(adss::tr_of(t0, M0, R0, s_new(b"adss"@))),
    ensures
        s.C@ == adss::C_of(adss::K_of(adss::tr_of(t0, M0, R0, s_new(b"adss"@))), M0),
        s.D@ == adss::D_of(adss::K_of(adss::tr_of(t0, M0, R0, s_new(b"adss"@))), M0, R0),
{
    broadcast use group_strobe;
    C05_auth(s, shs, t0, M0, R0);
}

/// C16: shares created under a different authenticated transcript are rejected
pub proof fn C16_transcript(s: adss::Share, shs: Seq<Share>, t0: u32, M0: Seq<u8>, R0: Seq<u8>, base: ST)
    requires
        base != s_new(b"adss"@),
        s.J@ == adss::J_of(adss::tr_of(t0, M0, R0, base)),
    ensures adss::rec_spec(s, shs).is_none()
{
    broadcast use group_s5;
    if adss::rec_spec(s, shs).is_some() {
        let r = adss::rec_spec(s, shs).unwrap();
        let tr = adss::tr_of(s.A.threshold, r.0, r.1, s_new(b"adss"@));
        let tr0 = adss::tr_of(t0, M0, R0, base);
        assert(adss::J_of(tr) == adss::J_of(tr0));
        assert(tr == tr0);
    }
}

// ---------------------------------------------------------------- C01: end to end
/// what `Message::generate` guarantees about a report (its Ok-postcondition, as a predicate)
pub open spec fn is_report_of(r: sta_rs::Message, m: Seq<u8>, e: Seq<u8>, t: u32, aux: Option<Seq<u8>>, rnd: Seq<u8>) -> bool {
    r.tag@ == sta_rs::rv(rnd, 2)
    && r.ciphertext.bytes@ == enc_out(
        sta_rs::ct_state(sta_rs::ske(sta_rs::rv(rnd, 0), e), "star_encrypt".spec_bytes()), sta_rs::payload(m, aux))
    && adss::is_share_of(r.share.0, t, sta_rs::rv(rnd, 0), sta_rs::rv(rnd, 1), s_new(b"adss"@))
}

/// encoding a share and decoding it again preserves everything recovery looks at
pub proof fn C01_share_roundtrip(sh: adss::Share, sh2: adss::Share)
    requires
        sh.C@.len() <= u32::MAX, sh.D@.len() <= u32::MAX, 24 * (sh.S.y@.len() + 1) <= u32::MAX,
        ({ let b = adss::layout_share(sh.A.threshold, enc_ss(sh.S.x, sh.S.y@), sh.C@, sh.D@, sh.J@);
           adss::parse_share(b) matches Some(p)
           && sh2.A.threshold as int == p.0 && ss_match(sh2.S, p.1) && sh2.C@ == p.2 && sh2.D@ == p.3 && sh2.J@ == p.4 }),
    ensures
        sh2.A.threshold == sh.A.threshold, sh2.C@ == sh.C@, sh2.D@ == sh.D@, sh2.J@ == sh.J@,
        fv(sh2.S.x) == fv(sh.S.x), sh2.S.y@.len() == sh.S.y@.len(),
        forall|j: int| 0 <= j < sh.S.y@.len() ==> fv(#[trigger] sh2.S.y@[j]) == fv(sh.S.y@[j]),
{
    let ss = enc_ss(sh.S.x, sh.S.y@);
    C08_ss_roundtrip(sh.S.x, sh.S.y@);
    C08_share_roundtrip(sh.A.threshold, ss, sh.C@, sh.D@, sh.J@);
    assert forall|j: int| 0 <= j < sh.S.y@.len() implies fv(#[trigger] sh2.S.y@[j]) == fv(sh.S.y@[j]) by {
        assert(fv(sh2.S.y@[(j + 1) - 1]) == le_int(chunk(ss, j + 1)));
    }
}

/// C01: for every measurement m, epoch e, threshold t >= 1, client randomness rnd and per-client
/// associated data, any collection of reports for (m, e, t, rnd) whose shares contain t distinct
/// points (any order, duplicates, surplus) recovers r0 = rv(rnd, 0); the key re-derived from the
/// recovered message and the epoch decrypts EVERY report to exactly frame(m) followed by
/// frame(aux) when aux was supplied (possibly empty) and by nothing when it was not.
pub proof fn C01_recover(t: u32, m: Seq<u8>, e: Seq<u8>, rnd: Seq<u8>, reps: Seq<sta_rs::Message>, auxs: Seq<Option<Seq<u8>>>)
    requires
        t >= 1, reps.len() >= 1, auxs.len() == reps.len(), m.len() <= u32::MAX,
        forall|k: int| 0 <= k < auxs.len() ==> (#[trigger] auxs[k] matches Some(a) ==> a.len() <= u32::MAX),
        forall|k: int| 0 <= k < reps.len() ==> is_report_of(#[trigger] reps[k], m, e, t, auxs[k], rnd),
        dedup(adss::s_parts(reps.map_values(|r: sta_rs::Message| r.share.0))).len() >= t,
    ensures
        ({
            let shs = reps.map_values(|r: sta_rs::Message| r.share.0);
            let key = sta_rs::ske(sta_rs::rv(rnd, 0), e);
            adss::rec_spec(shs[0], adss::s_parts(shs)) == Some((sta_rs::rv(rnd, 0), sta_rs::rv(rnd, 1)))
            && forall|k: int| 0 <= k < reps.len() ==> ({
                let pt = dec_out(sta_rs::ct_state(key, "star_encrypt".spec_bytes()), (#[trigger] reps[k]).ciphertext.bytes@);
                let rest = pt.subrange(4 + m.len() as int, pt.len() as int);
                parse_frame(pt) == Some(m)
                && match auxs[k] { Some(a) => parse_frame(rest) == Some(a), None => rest.len() == 0 }
            })
        }),
{
    broadcast use group_strobe;
    let shs = reps.map_values(|r: sta_rs::Message| r.share.0);
    assert forall|i: int| 0 <= i < shs.len() implies
        adss::is_share_of(#[trigger] shs[i], t, sta_rs::rv(rnd, 0), sta_rs::rv(rnd, 1), s_new(b"adss"@)) by {
        assert(is_report_of(reps[i], m, e, t, auxs[i], rnd));
    }
    C16_recover(t, sta_rs::rv(rnd, 0), sta_rs::rv(rnd, 1), shs);
    let key = sta_rs::ske(sta_rs::rv(rnd, 0), e);
    assert forall|k: int| 0 <= k < reps.len() implies ({
        let pt = dec_out(sta_rs::ct_state(key, "star_encrypt".spec_bytes()), (#[trigger] reps[k]).ciphertext.bytes@);
        let rest = pt.subrange(4 + m.len() as int, pt.len() as int);
        parse_frame(pt) == Some(m)
        && match auxs[k] { Some(a) => parse_frame(rest) == Some(a), None => rest.len() == 0 }
    }) by {
        assert(is_report_of(reps[k], m, e, t, auxs[k], rnd));
        let pl = sta_rs::payload(m, auxs[k]);
        let pt = dec_out(sta_rs::ct_state(key, "star_encrypt".spec_bytes()), reps[k].ciphertext.bytes@);
        assert(pt == pl);
        match auxs[k] {
            Some(a) => {
                C08_frame_roundtrip(m, frame(a));
                assert(frame(a) =~= frame(a) + Seq::<u8>::empty());
                C08_frame_roundtrip(a, Seq::<u8>::empty());
            },
            None => {
                C08_frame_roundtrip(m, Seq::<u8>::empty());
            },
        }
    }
}

// ---------------------------------------------------------------- C04: tags and keys are a function of exactly (m, e, t)
/// same triple => same randomness, tag, key (determinism S1; no injectivity needed).  The terms
/// do not mention the associated data at all.
pub proof fn C04_same(m: Seq<u8>, e: Seq<u8>, t: u32, r1: sta_rs::Message, r2: sta_rs::Message, a1: Option<Seq<u8>>, a2: Option<Seq<u8>>)
    requires
        is_report_of(r1, m, e, t, a1, sta_rs::local_rnd(m, e, t)),
        is_report_of(r2, m, e, t, a2, sta_rs::local_rnd(m, e, t)),
    ensures
        r1.tag@ == r2.tag@,
        r1.share.0.J@ == r2.share.0.J@, r1.share.0.C@ == r2.share.0.C@, r1.share.0.D@ == r2.share.0.D@,
        r1.share.0.A.threshold == r2.share.0.A.threshold,
{
}

pub proof fn lemma_fold_ad_2(s: ST, a: Seq<u8>, b: Seq<u8>)
    ensures sta_rs::fold_ad(s, seq![a, b]) == s_ad(s_ad(s, a), b)
{
    let l = seq![a, b];
    assert(l.drop_last() =~= seq![a]);
    assert(seq![a].drop_last() =~= Seq::<Seq<u8>>::empty());
    assert(sta_rs::fold_ad(s, seq![a]) == s_ad(sta_rs::fold_ad(s, Seq::<Seq<u8>>::empty()), a));
}
pub proof fn lemma_fold_ad_1(s: ST, a: Seq<u8>)
    ensures sta_rs::fold_ad(s, seq![a]) == s_ad(s, a)
{
    assert(seq![a].drop_last() =~= Seq::<Seq<u8>>::empty());
    assert(sta_rs::fold_ad(s, seq![a]) == s_ad(sta_rs::fold_ad(s, seq![a].drop_last()), seq![a].last()));
    assert(sta_rs::fold_ad(s, Seq::<Seq<u8>>::empty()) == s);
}

/// different triple => different randomness (S5: ideal-hash injectivity of the RNG output, and the
/// free term algebra of framed operations).  Covers boundary shifts between measurement and
/// epoch, empty components and thresholds differing in one bit: ANY difference.
pub proof fn C04_diff_rnd(m1: Seq<u8>, e1: Seq<u8>, t1: u32, m2: Seq<u8>, e2: Seq<u8>, t2: u32)
    requires sta_rs::local_rnd(m1, e1, t1) == sta_rs::local_rnd(m2, e2, t2)
    ensures m1 == m2, e1 == e2, t1 == t2
{
    broadcast use group_s5;
    let l = "star_sample_local".spec_bytes();
    lemma_fold_ad_2(s_key(s_new(l), m1), e1, le32(t1));
    lemma_fold_ad_2(s_key(s_new(l), m2), e2, le32(t2));
    let s1 = s_ad(s_ad(s_key(s_new(l), m1), e1), le32(t1));
    let s2 = s_ad(s_ad(s_key(s_new(l), m2), e2), le32(t2));
    assert(adss::strobe_rng::rng_out(s1, 32) == adss::strobe_rng::rng_out(s2, 32));
    assert(s_meta_ad(s1, le32(32)) == s_meta_ad(s2, le32(32)));
    assert(s1 == s2);
    lemma_le32(t1); lemma_le32(t2);
}

/// different client randomness => different tags
pub proof fn C04_diff_tag(rnd1: Seq<u8>, rnd2: Seq<u8>)
    requires sta_rs::rv(rnd1, 2) == sta_rs::rv(rnd2, 2)
    ensures rnd1 == rnd2
{
    broadcast use group_s5;
    let l = "star_derive_randoms".spec_bytes();
    lemma_fold_ad_1(s_key(s_new(l), rnd1), seq![2u8]);
    lemma_fold_ad_1(s_key(s_new(l), rnd2), seq![2u8]);
    let s1 = s_ad(s_key(s_new(l), rnd1), seq![2u8]);
    let s2 = s_ad(s_key(s_new(l), rnd2), seq![2u8]);
    assert(adss::strobe_rng::rng_out(s1, 32) == adss::strobe_rng::rng_out(s2, 32));
    assert(s_meta_ad(s1, le32(32)) == s_meta_ad(s2, le32(32)));
}

/// different (key seed, epoch) => different encryption keys (S5 incl. 128-bit prefix injectivity)
pub proof fn C04_diff_key(r0a: Seq<u8>, ea: Seq<u8>, r0b: Seq<u8>, eb: Seq<u8>)
    requires sta_rs::ske(r0a, ea) == sta_rs::ske(r0b, eb)
    ensures r0a == r0b, ea == eb
{
    broadcast use {group_s5, ax_s5_prf_prefix};
    let l = "star_derive_ske_key".spec_bytes();
    lemma_fold_ad_1(s_key(s_new(l), r0a), ea);
    lemma_fold_ad_1(s_key(s_new(l), r0b), eb);
    let s1 = s_meta_ad(s_ad(s_key(s_new(l), r0a), ea), le32(32));
    let s2 = s_meta_ad(s_ad(s_key(s_new(l), r0b), eb), le32(32));
    assert(prf_out(s1, 32).subrange(0, 16) == prf_out(s2, 32).subrange(0, 16));
    assert(s1 == s2);
}

/// C04, assembled: clients that differ in any one of (measurement, epoch, threshold) obtain
/// different randomness, different tags and different keys
pub proof fn C04_diff(m1: Seq<u8>, e1: Seq<u8>, t1: u32, m2: Seq<u8>, e2: Seq<u8>, t2: u32)
    requires m1 != m2 || e1 != e2 || t1 != t2
    ensures
        sta_rs::local_rnd(m1, e1, t1) != sta_rs::local_rnd(m2, e2, t2),
        sta_rs::rv(sta_rs::local_rnd(m1, e1, t1), 2) != sta_rs::rv(sta_rs::local_rnd(m2, e2, t2), 2),
        sta_rs::ske(sta_rs::rv(sta_rs::local_rnd(m1, e1, t1), 0), e1) != sta_rs::ske(sta_rs::rv(sta_rs::local_rnd(m2, e2, t2), 0), e2),
{
    let d1 = sta_rs::local_rnd(m1, e1, t1);
    let d2 = sta_rs::local_rnd(m2, e2, t2);
    if d1 == d2 { C04_diff_rnd(m1, e1, t1, m2, e2, t2); }
    if sta_rs::rv(d1, 2) == sta_rs::rv(d2, 2) { C04_diff_tag(d1, d2); }
    if sta_rs::ske(sta_rs::rv(d1, 0), e1) == sta_rs::ske(sta_rs::rv(d2, 0), e2) {
        C04_diff_key(sta_rs::rv(d1, 0), e1, sta_rs::rv(d2, 0), e2);
        C04_diff_r0(d1, d2);
    }
}
pub proof fn C04_diff_r0(rnd1: Seq<u8>, rnd2: Seq<u8>)
    requires sta_rs::rv(rnd1, 0) == sta_rs::rv(rnd2, 0)
    ensures rnd1 == rnd2
{
    broadcast use group_s5;
    let l = "star_derive_randoms".spec_bytes();
    lemma_fold_ad_1(s_key(s_new(l), rnd1), seq![0u8]);
    lemma_fold_ad_1(s_key(s_new(l), rnd2), seq![0u8]);
    let s1 = s_ad(s_key(s_new(l), rnd1), seq![0u8]);
    let s2 = s_ad(s_key(s_new(l), rnd2), seq![0u8]);
    assert(adss::strobe_rng::rng_out(s1, 32) == adss::strobe_rng::rng_out(s2, 32));
    assert(s_meta_ad(s1, le32(32)) == s_meta_ad(s2, le32(32)));
}

// ---------------------------------------------------------------- C03: keystream reuse (REFUTATION, derived from the contracts)
/// For two reports of the same (measurement, epoch, threshold, randomness) the ciphertext is
/// produced from the SAME Strobe state (by `generate`'s contract the state depends on key and label
/// only), so by S4 the XOR of the two ciphertexts equals the XOR of the two payloads on the first
/// 166 bytes.  This is the negation of the third sentence of property C03.
pub proof fn C03_reuse(m: Seq<u8>, e: Seq<u8>, t: u32, rnd: Seq<u8>, r1: sta_rs::Message, r2: sta_rs::Message,
                       a1: Option<Seq<u8>>, a2: Option<Seq<u8>>, i: int)
    requires
        is_report_of(r1, m, e, t, a1, rnd), is_report_of(r2, m, e, t, a2, rnd),
        0 <= i < sta_rs::payload(m, a1).len(), i < sta_rs::payload(m, a2).len(), i < 166,
    ensures
        r1.ciphertext.bytes@[i] ^ r2.ciphertext.bytes@[i] == sta_rs::payload(m, a1)[i] ^ sta_rs::payload(m, a2)[i],
{
    broadcast use ax_s4;
    let s = sta_rs::ct_state(sta_rs::ske(sta_rs::rv(rnd, 0), e), "star_encrypt".spec_bytes());
    let p1 = sta_rs::payload(m, a1);
    let p2 = sta_rs::payload(m, a2);
    let k = keystream(s)[i];
    let x = p1[i]; let y = p2[i];
    assert(enc_out(s, p1)[i] == x ^ k);
    assert(enc_out(s, p2)[i] == y ^ k);
    assert((x ^ k) ^ (y ^ k) == x ^ y) by (bit_vector);
}

// ---------------------------------------------------------------- vacuity guard
/// must FAIL on every run: if the assumed theories were contradictory this would verify.  The
/// driver treats "canary_must_fail_* verified" as a tooling error (exit 2).
pub proof fn canary_must_fail_sta()
    ensures false
{
    broadcast use {group_iter_seq, group_strobe, group_field, group_s5, ax_s5_prf_prefix, ax_s4, ax_fv_inj, ax_finv,
        adss::ax_det_strobe_rng, sta_rs::ax_fill_strobe_rng, adss::lemma_s_parts_ext,
        ax_vec_u8_ext, ax_vec_u8_key_model, vstd::laws_eq::group_laws_eq, ax_concat_vec_u8};
}

} // mod lemmas
