// ======================================================================
// Property-level lemmas.  They talk about the CONTRACTS only (spec vocabulary of the modules
// above), never about function bodies: each shows that the contracts compose to the property.
pub mod lemmas {
use super::*;
use super::verif_std::*;
use super::layout::*;
use super::th_strobe::*;
use super::th_field::*;
use super::star_sharks::*;
use super::adss;
use super::sta_rs;
use vstd::bytes::*;
use vstd::arithmetic::power::*;
use vstd::arithmetic::div_mod::*;

// ---------------------------------------------------------------- integers <-> bytes
pub open spec fn pow256(n: nat) -> int
    decreases n
{
    if n == 0 { 1 } else { 256 * pow256((n - 1) as nat) }
}

pub proof fn lemma_pow256_pos(n: nat)
    ensures pow256(n) >= 1
    decreases n
{
    if n > 0 { lemma_pow256_pos((n - 1) as nat); }
}

pub proof fn lemma_le_int_bound(b: Seq<u8>)
    ensures 0 <= le_int(b) < pow256(b.len())
    decreases b.len()
{
    if b.len() > 0 {
        lemma_le_int_bound(b.subrange(1, b.len() as int));
        lemma_pow256_pos((b.len() - 1) as nat);
    }
}

/// encoding then decoding an integer that fits
pub proof fn lemma_le_int_le_bytes(v: int, n: nat)
    requires 0 <= v < pow256(n)
    ensures le_bytes(v, n).len() == n, le_int(le_bytes(v, n)) == v
    decreases n
{
    if n > 0 {
        let rest = le_bytes(v / 256, (n - 1) as nat);
        lemma_pow256_pos((n - 1) as nat);
        assert(v / 256 < pow256((n - 1) as nat)) by (nonlinear_arith)
            requires v < 256 * pow256((n - 1) as nat), 0 <= v;
        lemma_le_int_le_bytes(v / 256, (n - 1) as nat);
        let s = seq![(v % 256) as u8] + rest;
        assert(s.subrange(1, s.len() as int) =~= rest);
        assert(s[0] == (v % 256) as u8);
    }
}

pub proof fn lemma_le_bytes_len(v: int, n: nat)
    ensures le_bytes(v, n).len() == n
    decreases n
{
    if n > 0 { lemma_le_bytes_len(v / 256, (n - 1) as nat); }
}

/// decoding then re-encoding a byte string
pub proof fn lemma_le_bytes_le_int(b: Seq<u8>)
    ensures le_bytes(le_int(b), b.len()) == b
    decreases b.len()
{
    if b.len() > 0 {
        let rest = b.subrange(1, b.len() as int);
        lemma_le_bytes_le_int(rest);
        lemma_le_int_bound(rest);
        let v = le_int(b);
        assert(v == b[0] as int + 256 * le_int(rest));
        let b0 = b[0] as int;
        let r = le_int(rest);
        assert(v % 256 == b0 && v / 256 == r) by (nonlinear_arith)
            requires v == b0 + 256 * r, 0 <= b0, b0 < 256, 0 <= r;
        assert(le_bytes(v, b.len()) =~= b);
    } else {
        assert(le_bytes(le_int(b), b.len()) =~= b);
    }
}

// ---------------------------------------------------------------- C08: frames
pub proof fn C08_frame_roundtrip(b: Seq<u8>, rest: Seq<u8>)
    requires b.len() <= u32::MAX
    ensures
        parse_frame(frame(b) + rest) == Some(b),
        (frame(b) + rest).subrange(4 + b.len() as int, (frame(b) + rest).len() as int) == rest,
{
    let f = frame(b) + rest;
    lemma_auto_spec_u32_to_from_le_bytes();
    assert(f.subrange(0, 4) =~= le32(b.len() as u32));
    assert(f.subrange(4, 4 + b.len() as int) =~= b);
    assert(f.subrange(4 + b.len() as int, f.len() as int) =~= rest);
}

/// an accepted frame is exactly `frame(chunk)` followed by the remaining bytes
pub proof fn C08_frame_canonical(b: Seq<u8>)
    requires parse_frame(b).is_some()
    ensures
        b == frame(parse_frame(b).unwrap()) + b.subrange(4 + parse_frame(b).unwrap().len() as int, b.len() as int),
        parse_frame(b).unwrap().len() <= u32::MAX,
{
    let c = parse_frame(b).unwrap();
    lemma_auto_spec_u32_to_from_le_bytes();
    let hdr = b.subrange(0, 4);
    assert(spec_u32_to_le_bytes(spec_u32_from_le_bytes(hdr)) == hdr);
    assert(b =~= frame(c) + b.subrange(4 + c.len() as int, b.len() as int));
}


// ---------------------------------------------------------------- C08: adss shares
pub proof fn C08_share_roundtrip(t: u32, ss: Seq<u8>, c: Seq<u8>, d: Seq<u8>, j: Seq<u8>)
    requires ss.len() <= u32::MAX, c.len() <= u32::MAX, d.len() <= u32::MAX, j.len() == 64, ss_ok(ss)
    ensures adss::parse_share(adss::layout_share(t, ss, c, d, j)) == Some((t, ss, c, d, j))
{
    let b = adss::layout_share(t, ss, c, d, j);
    lemma_auto_spec_u32_to_from_le_bytes();
    let t3 = frame(d) + j;
    let t2 = frame(c) + t3;
    let t1 = frame(ss) + t2;
    assert(b =~= le32(t) + t1);
    assert(b.subrange(0, 4) =~= le32(t));
    let r1 = b.subrange(4, b.len() as int);
    assert(r1 =~= t1);
    C08_frame_roundtrip(ss, t2);
    let r2 = r1.subrange(4 + ss.len() as int, r1.len() as int);
    assert(r2 =~= t2);
    C08_frame_roundtrip(c, t3);
    let r3 = r2.subrange(4 + c.len() as int, r2.len() as int);
    assert(r3 =~= t3);
    C08_frame_roundtrip(d, j);
    let r4 = r3.subrange(4 + d.len() as int, r3.len() as int);
    assert(r4 =~= j);
}

/// canonical form: an accepted share encoding is exactly the layout of what the parser returns
/// (no byte of a share encoding is ignored at this level)
pub proof fn C08_share_canonical(b: Seq<u8>)
    requires adss::parse_share(b).is_some()
    ensures ({ let p = adss::parse_share(b).unwrap(); b == adss::layout_share(p.0, p.1, p.2, p.3, p.4) && p.4.len() == 64 && ss_ok(p.1) })
{
    lemma_auto_spec_u32_to_from_le_bytes();
    let p = adss::parse_share(b).unwrap();
    let r1 = b.subrange(4, b.len() as int);
    C08_frame_canonical(r1);
    let r2 = r1.subrange(4 + p.1.len() as int, r1.len() as int);
    C08_frame_canonical(r2);
    let r3 = r2.subrange(4 + p.2.len() as int, r2.len() as int);
    C08_frame_canonical(r3);
    let r4 = r3.subrange(4 + p.3.len() as int, r3.len() as int);
    let hdr = b.subrange(0, 4);
    assert(spec_u32_to_le_bytes(spec_u32_from_le_bytes(hdr)) == hdr);
    assert(b =~= hdr + r1);
    assert(b =~= adss::layout_share(p.0, p.1, p.2, p.3, p.4));
}

// ---------------------------------------------------------------- C08: sharks shares
pub proof fn lemma_concat_repr_len(y: Seq<Fp>)
    ensures concat_repr(y).len() == 24 * y.len()
    decreases y.len()
{
    if y.len() > 0 {
        lemma_concat_repr_len(y.drop_last());
        lemma_le_bytes_len(fv(y.last()), 24);
    }
}

pub proof fn lemma_concat_repr_chunk(y: Seq<Fp>, j: int)
    requires 0 <= j < y.len()
    ensures chunk(concat_repr(y), j) == repr(y[j])
    decreases y.len()
{
    lemma_concat_repr_len(y);
    lemma_concat_repr_len(y.drop_last());
    lemma_le_bytes_len(fv(y.last()), 24);
    if j == y.len() - 1 {
        assert(chunk(concat_repr(y), j) =~= repr(y.last()));
    } else {
        lemma_concat_repr_chunk(y.drop_last(), j);
        assert(chunk(concat_repr(y), j) =~= chunk(concat_repr(y.drop_last()), j));
    }
}

pub proof fn lemma_p_lt_pow256_24()
    ensures P() < pow256(24)
{
    assert(pow256(24) == 256 * 256 * 256 * 256 * 256 * 256 * 256 * 256 * 256 * 256 * 256 * 256
        * 256 * 256 * 256 * 256 * 256 * 256 * 256 * 256 * 256 * 256 * 256 * 256) by (compute);
}

/// the encoding of a sharks share is accepted and decodes to the same values
pub proof fn C08_ss_roundtrip(x: Fp, y: Seq<Fp>)
    ensures
        ss_ok(enc_ss(x, y)),
        enc_ss(x, y).len() == 24 * (y.len() + 1),
        le_int(chunk(enc_ss(x, y), 0)) == fv(x),
        forall|j: int| 1 <= j <= y.len() ==> le_int(#[trigger] chunk(enc_ss(x, y), j)) == fv(y[j - 1]),
{
    broadcast use ax_fv_range;
    let b = enc_ss(x, y);
    lemma_p_lt_pow256_24();
    lemma_concat_repr_len(y);
    lemma_le_int_le_bytes(fv(x), 24);
    assert(chunk(b, 0) =~= repr(x));
    assert forall|j: int| 1 <= j <= y.len() implies le_int(#[trigger] chunk(b, j)) == fv(y[j - 1]) by {
        lemma_concat_repr_chunk(y, j - 1);
        assert(chunk(b, j) =~= chunk(concat_repr(y), j - 1));
        lemma_le_int_le_bytes(fv(y[j - 1]), 24);
    }
    assert forall|j: int| 0 <= j < b.len() / 24 implies elem_ok(#[trigger] chunk(b, j)) by {
        if j >= 1 { assert(le_int(chunk(b, j)) == fv(y[j - 1])); }
    }
}

/// canonical form of an accepted sharks encoding: re-encoding the decoded share gives the input
/// with the incomplete trailing element (fewer than 24 bytes) dropped, nothing else changed
pub proof fn C08_ss_canonical(sh: Share, b: Seq<u8>)
    requires ss_ok(b), ss_match(sh, b)
    ensures enc_ss(sh.x, sh.y@) == b.subrange(0, 24 * (b.len() as int / 24))
{
    let n = b.len() as int / 24;
    let e = enc_ss(sh.x, sh.y@);
    C08_ss_roundtrip(sh.x, sh.y@);
    let c = b.subrange(0, 24 * n);
    assert(e.len() == c.len());
    assert forall|j: int| 0 <= j < n implies chunk(e, j) == #[trigger] chunk(c, j) by {
        assert(chunk(c, j) =~= chunk(b, j));
        lemma_le_bytes_le_int(chunk(b, j));
        lemma_le_bytes_le_int(chunk(e, j));
        assert(le_int(chunk(e, j)) == le_int(chunk(b, j)));
    }
    assert forall|i: int| 0 <= i < e.len() implies e[i] == c[i] by {
        let j = i / 24;
        assert(chunk(e, j) == chunk(c, j));
        assert(e[i] == chunk(e, j)[i - 24 * j]);
        assert(c[i] == chunk(c, j)[i - 24 * j]);
    }
    assert(e =~= c);
}

// ---------------------------------------------------------------- C08: reports
pub proof fn C08_msg_roundtrip(ct: Seq<u8>, sb: Seq<u8>, tag: Seq<u8>)
    requires ct.len() <= u32::MAX, sb.len() <= u32::MAX, tag.len() <= u32::MAX, adss::parse_share(sb).is_some()
    ensures sta_rs::parse_msg(sta_rs::layout_msg(ct, sb, tag)) == Some((ct, sb, tag))
{
    let b = sta_rs::layout_msg(ct, sb, tag);
    let t2 = frame(tag);
    let t1 = frame(sb) + t2;
    assert(b =~= frame(ct) + t1);
    C08_frame_roundtrip(ct, t1);
    let r1 = b.subrange(4 + ct.len() as int, b.len() as int);
    assert(r1 =~= t1);
    C08_frame_roundtrip(sb, t2);
    let r2 = r1.subrange(4 + sb.len() as int, r1.len() as int);
    assert(r2 =~= t2);
    assert(t2 =~= frame(tag) + Seq::<u8>::empty());
    C08_frame_roundtrip(tag, Seq::<u8>::empty());
}

/// canonical form of an accepted report: the layout of the parsed chunks is a prefix of the input;
/// only bytes after the tag chunk are ignored
pub proof fn C08_msg_canonical(b: Seq<u8>)
    requires sta_rs::parse_msg(b).is_some()
    ensures ({
        let q = sta_rs::parse_msg(b).unwrap();
        let l = sta_rs::layout_msg(q.0, q.1, q.2);
        l.len() <= b.len() && b.subrange(0, l.len() as int) == l
    })
{
    let q = sta_rs::parse_msg(b).unwrap();
    C08_frame_canonical(b);
    let r1 = b.subrange(4 + q.0.len() as int, b.len() as int);
    C08_frame_canonical(r1);
    let r2 = r1.subrange(4 + q.1.len() as int, r1.len() as int);
    C08_frame_canonical(r2);
    let l = sta_rs::layout_msg(q.0, q.1, q.2);
    assert(b.subrange(0, l.len() as int) =~= l);
}

} // mod lemmas
