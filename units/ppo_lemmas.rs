// ======================================================================
// Property-level lemmas over the ppoprf contracts
pub mod lemmas {
use super::*;
use super::ggm::*;
use super::ppoprf::*;
use curve25519_dalek::ristretto::{CompressedRistretto, RistrettoPoint};
use curve25519_dalek::scalar::Scalar as RistrettoScalar;

// ---------------------------------------------------------------- algebra helpers (T-group, explicit instantiation)
pub proof fn lemma_cancel_left(r: RistrettoScalar, e: RistrettoScalar)
    requires r != szero()
    ensures smul(sinv(r), smul(e, r)) == e
{
    ax_smul_comm(e, r);
    ax_smul_assoc(sinv(r), r, e);
    ax_sinv(r);
    ax_smul_one(e);
}

/// C12 (core): unblinding the evaluation of a blinded point gives the evaluation of the point
pub proof fn C12_oblivious(s: Server, md: u8, pt: RistrettoPoint, r: RistrettoScalar)
    requires r != szero()
    ensures pmul(sinv(r), eval_point(s, md, pmul(r, pt))) == eval_point(s, md, pt)
{
    let e = sinv(sadd(s.oprf_key, ts_of(s.pprf, md)));
    ax_pmul_pmul(e, r, pt);
    ax_pmul_pmul(sinv(r), smul(e, r), pt);
    lemma_cancel_left(r, e);
}

/// C12: composing the contracts of blind / Server::eval / unblind - the unblinded point is the
/// server's evaluation of the UNBLINDED input point, whatever the (non-zero) blinding scalar; the
/// finalised output (a hash of input, tag and that point) is therefore the same for every request.
pub proof fn C12_end_to_end(s: Server, md: u8, x: Seq<u8>, blinded: Point, r: CurveScalar, ev: Evaluation, unbl: Point)
    requires
        r.0 != szero(),
        blinded.0 == comp(pmul(r.0, input_point(x))),
        decomp(blinded.0).is_some() ==> ev.output.0 == comp(eval_point(s, md, decomp(blinded.0).unwrap())),
        decomp(ev.output.0).is_some() ==> unbl.0 == comp(pmul(sinv(r.0), decomp(ev.output.0).unwrap())),
    ensures
        unbl.0 == comp(eval_point(s, md, input_point(x))),
{
    broadcast use group_enc;
    C12_oblivious(s, md, input_point(x), r.0);
}

// ---------------------------------------------------------------- C13: completeness
pub proof fn lemma_m1_z1(K: RistrettoScalar, pv: RistrettoPoint, pt: RistrettoPoint)
    requires K != szero()
    ensures z1(pv, pmul(sinv(K), pt), pt) == pmul(K, m1(pv, pmul(sinv(K), pt), pt))
{
    let out = pmul(sinv(K), pt);
    let d = coef(seed_of(pv), 0, out, pt);
    ax_padd_id(pmul(d, out));
    ax_padd_id(pmul(d, pt));
    // K * (d * (K^-1 * pt)) == d * pt
    ax_pmul_pmul(d, sinv(K), pt);
    ax_pmul_pmul(K, smul(d, sinv(K)), pt);
    ax_smul_comm(d, sinv(K));
    lemma_cancel_left_2(K, d);
}
pub proof fn lemma_cancel_left_2(K: RistrettoScalar, d: RistrettoScalar)
    requires K != szero()
    ensures smul(K, smul(sinv(K), d)) == d
{
    ax_smul_assoc(K, sinv(K), d);
    ax_smul_comm(K, sinv(K));
    ax_sinv(K);
    ax_smul_one(d);
}

/// s*P + c*(K*P) == n*P when s = n - c*K
pub proof fn lemma_commit(n: RistrettoScalar, c: RistrettoScalar, K: RistrettoScalar, P_: RistrettoPoint)
    ensures padd(pmul(ssub(n, smul(c, K)), P_), pmul(c, pmul(K, P_))) == pmul(n, P_)
{
    ax_pmul_pmul(c, K, P_);
    ax_pmul_sadd(ssub(n, smul(c, K)), smul(c, K), P_);
    ax_ssub_add(n, smul(c, K));
}

/// C13 (completeness): on a server satisfying the key invariant, a verifiable evaluation of any
/// decodable point under a registered tag is accepted by the client's check under the server's
/// own public key.  Hypothesis: the tagged key k + ts(md) is non-zero (probability 2^-252).
pub proof fn C13_complete(s: Server, md: u8, pt: RistrettoPoint, pr: ProofDLEQ)
    requires
        server_wf(s),
        s.public_key.md_pks@.contains_key(md),
        sadd(s.oprf_key, ts_of(s.pprf, md)) != szero(),
        batch_proof(pr, sadd(s.oprf_key, ts_of(s.pprf, md)), combined_pk(s.public_key, md),
            seq![eval_point(s, md, pt)], seq![pt]),
    ensures
        pk_ok(s.public_key, md),
        accepts(pr, combined_pk(s.public_key, md),
            m1(combined_pk(s.public_key, md), eval_point(s, md, pt), pt),
            z1(combined_pk(s.public_key, md), eval_point(s, md, pt), pt)),
{
    broadcast use group_enc;
    reveal_with_fuel(comp_m, 2);
    let K = sadd(s.oprf_key, ts_of(s.pprf, md));
    let pv = combined_pk(s.public_key, md);
    let out = eval_point(s, md, pt);
    // the combined public value is K * G
    ax_pmul_sadd(s.oprf_key, ts_of(s.pprf, md), base());
    assert(pv == pmul(K, base()));
    let m = comp_m(seed_of(pv), seq![out], seq![pt], 1);
    assert(m == m1(pv, out, pt));
    let n = choose|nonce: RistrettoScalar| #[trigger] is_proof_with(pr, K, pv, m, pmul(K, m), nonce);
    assert(is_proof_with(pr, K, pv, m, pmul(K, m), n));
    lemma_m1_z1(K, pv, pt);
    lemma_commit(n, pr.c, K, base());
    lemma_commit(n, pr.c, K, m);
}

// ---------------------------------------------------------------- C14: histories
/// one state transition of a server as constrained by the per-operation contracts: `eval` takes
/// &self (no transition); `puncture(md)` may add md to the punctured set and changes nothing else
pub open spec fn punct_step(pre: Server, post: Server, md: u8) -> bool {
    (punct(post.pprf) == punct(pre.pprf).insert(md) || punct(post.pprf) == punct(pre.pprf))
    && root(post.pprf) == root(pre.pprf)
    && post.public_key == pre.public_key
    && post.oprf_key == pre.oprf_key
}
pub open spec fn history(ss: Seq<Server>, mds: Seq<u8>) -> bool {
    ss.len() == mds.len() + 1
    && forall|i: int| 0 <= i < mds.len() ==> punct_step(#[trigger] ss[i], ss[i + 1], mds[i])
}

/// C14: under every history of punctures (interleaved with any number of evaluations, which do not
/// change the state) the public key never changes, the answer for any (tag, point) never changes,
/// tags only ever leave the answerable set, and a tag is punctured at the end only if it was
/// punctured at the start or was the argument of a puncture in the history.
pub proof fn C14_history(ss: Seq<Server>, mds: Seq<u8>)
    requires history(ss, mds)
    ensures
        ss.last().public_key == ss[0].public_key,
        ss.last().oprf_key == ss[0].oprf_key,
        root(ss.last().pprf) == root(ss[0].pprf),
        forall|md: u8, pt: RistrettoPoint| #[trigger] eval_point(ss.last(), md, pt) == eval_point(ss[0], md, pt),
        forall|md: u8| punct(ss[0].pprf).contains(md) ==> #[trigger] punct(ss.last().pprf).contains(md),
        forall|md: u8| #[trigger] punct(ss.last().pprf).contains(md) ==> punct(ss[0].pprf).contains(md) || mds.contains(md),
    decreases mds.len()
{
    if mds.len() > 0 {
        let ss1 = ss.drop_last();
        let mds1 = mds.drop_last();
        assert(history(ss1, mds1)) by {
            assert forall|i: int| 0 <= i < mds1.len() implies punct_step(#[trigger] ss1[i], ss1[i + 1], mds1[i]) by {
                assert(punct_step(ss[i], ss[i + 1], mds[i]));
            }
        }
        C14_history(ss1, mds1);
        let k = mds.len() - 1;
        assert(punct_step(ss[k], ss[k + 1], mds[k]));
        assert(ss1.last() == ss[k]);
        assert forall|md: u8| #[trigger] punct(ss.last().pprf).contains(md) implies punct(ss[0].pprf).contains(md) || mds.contains(md) by {
            if punct(ss[k].pprf).contains(md) {
                if !punct(ss[0].pprf).contains(md) {
                    assert(mds1.contains(md));
                    let j = choose|j: int| 0 <= j < mds1.len() && mds1[j] == md;
                    assert(mds[j] == md);
                }
            } else {
                assert(md == mds[k]);
            }
        }
    }
}

/// C14 (export/import): a server whose three key components were replaced by those of another
/// server answers exactly like it (same key, same public key, same punctured set, same values).
/// That the exported bytes restore to equal components is T-serde (assumed, not proved).
pub proof fn C14_import(src: Server, dst: Server)
    requires dst.oprf_key == src.oprf_key, dst.public_key == src.public_key, dst.pprf.key == src.pprf.key
    ensures
        punct(dst.pprf) == punct(src.pprf),
        forall|md: u8, pt: RistrettoPoint| #[trigger] eval_point(dst, md, pt) == eval_point(src, md, pt),
        server_wf(src) ==> server_wf(dst),
{
}

/// must FAIL on every run (vacuity guard for the assumed theories of this unit)
pub proof fn canary_must_fail_ppo()
    ensures false
{
    broadcast use {group_iter_seq, group_strobe, group_ops, group_enc, group_alg, group_s5, ax_ggm_f_len};
}

} // mod lemmas
